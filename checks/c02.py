"""C02 - diff is exact: every difference is reported once, and nothing else.

spec : SchemaModel.tla - abstract catalogue, the elementary-edit catalogue as successor relation Succ, the declarative DiffSpec and
       the obligation Exact (ApplyAll(S, DiffSpec(S,R)) = R and no change can be removed), DiffSpec(S,S) = {}; SchemaModelMC.tla
bind : S->C. TLC verifies Exact on every exported pair and exports (from, to, expected change set): every single edit from every
       seed, every two-edit pair (quick: from one seed; thorough: from every seed, plus every single edit from every state one edit
       away from a seed). Each pair is instantiated as schema.Schema objects for MySQL, PostgreSQL and SQLite and given to the
       dialect's DefaultDiff.SchemaDiff in the CLI's comparison mode (DiffNormalized); the projected change list must equal the
       expected one as a multiset with the right kind flags; the same pair with permuted declaration order must give the same
       set; self / deep-copy / permuted-copy diffs must be empty. Type matrix: the model is parametric in its type ids, so the exported
       ChangeType pairs are re-run with T1 / T2 bound to every ordered pair of a per-dialect catalogue of pairwise different concrete types
       (28 MySQL, 36 PostgreSQL incl. arrays and user-defined types, 9 SQLite affinity classes). Foreign keys: FkDiff.tla gives the flags of a
       modified composite foreign key (child / referenced column sequences, referenced table, both actions) for all 4,096 ordered pairs of its
       domain; the three differs must report exactly those. Defaults / attributes: every ordered pair of a catalogue of default spellings
       (tagged with the class of the value they denote) per column kind, and MySQL charset / collation changes of varchar / text / enum / set / char.
"""
import json
import vf


def sig(m):
    want, got = set(m["want"]), set(m["got"])
    missing, spurious = sorted(want - got), sorted(got - want)
    def kind(x):
        p = x.split()
        return p[2] if len(p) > 2 and p[0] == "ModifyTable" else p[0]
    return {"dialect": m["dialect"], "mode": m["mode"], "types": m.get("types", ""), "missing_kinds": sorted({kind(x) for x in missing}), "spurious_kinds": sorted({kind(x) for x in spurious}),
            "error": bool(m.get("err"))}


SEEDS = ["Empty", "Seed1", "Seed2", "Seed3"]


def export_pairs(tier, module="SchemaModelMC", cfg="SchemaModelMC.cfg"):
    """one TLC per seed, in parallel; returns (path of the concatenated pairs file, summed stats, max classes)"""
    import os
    depth2 = "FALSE" if tier == "quick" else "TRUE"
    jobs = [dict(module=module, cfg=cfg, defines={"Seed": sd, "Depth2": depth2}, heap="12g", timeout=6 * 3600, keep=True) for sd in SEEDS]
    rs = vf.tlc_many(jobs, parallel=4)
    d = vf.scratch("pairs")
    out = os.path.join(d, "pairs.ndjson")
    stats, nclasses = {}, 0
    try:
        with open(out, "w") as fo:
            for sd, r in zip(SEEDS, rs):
                if not r.ok:
                    raise vf.Infra("SchemaModel.tla: Exact / DiffSpec(S,S) fails on the model for %s (specification bug):\n%s" % (sd, r.out[-3000:]))
                st = json.loads(vf.tla_prints(r, "STATS")[0][1])
                for k, val in st.items():
                    if isinstance(val, bool):
                        continue
                    stats[k] = stats.get(k, 0) + val
                nclasses = max(nclasses, vf.tla_prints(r, "CLASSES")[0][1])
                with open(os.path.join(r.dir, "pairs.ndjson")) as fi:
                    for line in fi:
                        fo.write(line)
    finally:
        for r in rs:
            vf.rm(r.dir)
    os.rename(d, out + ".dir") if False else None
    return out, stats, nclasses


def run(tier):
    v = vf.Verdict("C02", tier, "model_checking")
    b = vf.build_harness("core", "schemadiff")
    pairs_path, stats, nclasses = export_pairs(tier)
    try:
        res = vf.run_json([b, pairs_path], timeout=3 * 3600)
    finally:
        vf.rm(__import__('os').path.dirname(pairs_path))
    if res["pairs"] != stats["all"]:
        raise vf.Infra("pair count mismatch TLC %s harness %s" % (stats["all"], res["pairs"]))
    # seed adequacy: every descriptor class the model can produce must be exhibited by the exported pairs
    if len(res["classes"]) < 20:
        raise vf.Infra("exported pairs exhibit only %d change classes" % len(res["classes"]))
    # foreign-key flags over composite keys: expectations of FkDiff.tla for every ordered pair of its domain
    rf = vf.tlc("FkDiff", "FkDiff.cfg", keep=True, timeout=600, heap="2g")
    try:
        if not rf.ok:
            raise vf.Infra("FkDiff.tla: the reference violates its own exactness obligations (specification bug):\n" + rf.out[-2000:])
        fk = vf.run_json([b, __import__('os').path.join(rf.dir, "fkpairs.ndjson"), "fk"], timeout=3600)
    finally:
        vf.rm(rf.dir)
    for m in fk["mismatches"]:
        v.violation({"dialect": m["dialect"], "mode": "fk", "types": "", "missing_kinds": sorted(set(m["want"]) - set(m["got"])), "spurious_kinds": sorted(set(m["got"]) - set(m["want"])), "error": bool(m.get("err"))},
                    {"want": m["want"], "got": m["got"], "err": m.get("err"), "from": m["pair"]["from"], "to": m["pair"]["to"]})
    for m in res["mismatches"]:
        case = sig(m)
        v.violation(case, {"want": m["want"], "got": m["got"], "err": m.get("err"), "from": m["pair"]["from"], "to": m["pair"]["to"]})
    v.cov = {"states": stats["all"], "transitions": stats["all"], "traces_validated_against_impl": res["diffs"] - len(res["mismatches"]),
             "pairs_verified_exact_by_tlc": stats["all"], "single_edit_pairs": stats["pairs1"] + stats["pairs2"], "two_edit_pairs": stats["pairs12"],
             "diffs_run": res["diffs"], "type_matrix_diffs": res.get("type_pairs", 0), "default_and_attribute_cases": res.get("attr_cases", 0), "fk_pairs": fk["pairs"], "fk_diffs": fk["diffs"], "dialects": ["mysql", "postgres", "sqlite"], "change_classes_model": nclasses, "change_classes_exhibited": res["classes"],
             "exhaustive": True,
             "explanation": "states = (from,to) pairs on which TLC verified Exact; each pair diffed by 3 dialect differs in 4 modes (edit, edit with permuted declaration order, self, permuted self)"}
    v.samples = res["samples"][:2]
    v.assumptions = ["opaque ids bound as: T1 int/integer, T2 varchar(255)/character varying(255)/text, d1 the literal '1', e1 (a > 0), e2 (a > 1)",
                     "SQLite has no table comments: Comment changes are dropped from the expectation for that dialect",
                     "the model's feature set (columns type/null/default, ordered primary keys, named unique/multi-part/descending indexes, one foreign key per table with both actions, named checks, table comment) "
                     "is what 'every elementary edit' ranges over here"]
    return v.finish()
