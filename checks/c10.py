"""C10 - `migrate apply` is crash-consistent at every point, per transaction mode.

spec : ApplyTx.tla with the Crash action enabled at every control point (exhaustive, incl. the liveness property Recovery under
       weak fairness), ApplyTxMonitor.tla
bind : C->S. The real CLI binary (tag verif) is killed with SIGKILL at every hook point x occurrence for every mode x shape x
       directive placement; the SQLite file is read by an independent client; the same command is run again; TLC evaluates
       RevNotAhead / FileAtomic on the crashed disk and Recovery / RerunAfterCrashSucceeds after the rerun.
"""
import json
from checks import applycli
import cli
import vf

POINTS = ["pending", "driver_for", "before_writerev", "after_writerev", "before_exec", "after_exec", "before_commit", "after_commit", "apply_end"]


def count_points(cfg):
    """occurrences of each hook point in an undisturbed run of this configuration"""
    ws = cli.WS()
    try:
        cli.sql(ws.db, "CREATE TABLE j (v INTEGER, i INTEGER);")
        applycli.write_dir(ws, cfg)
        rc, out, err = ws.atlas(*applycli.apply_args(ws, cfg))
        cnt = {}
        for e in ws.events():
            cnt[e["point"]] = cnt.get(e["point"], 0) + 1
        return rc, cnt
    finally:
        ws.close()


def sig(sc):
    cfg = sc["cfg"]
    return {"part": "crash", "mode": cfg["mode"], "dir": cfg["dir"], "nst": cfg["nst"], "count": cfg["count"],
            "crash_points": [c[0] for c in sc["crashes"]], "crashes": sc["crashes"]}


def run(tier):
    v = vf.Verdict("C10", tier, "model_checking")
    vf.build_atlas()
    mcdef = dict(NF=2, NS=2, Counts="{0}", Drys="{FALSE}", MaxDir=1, MaxCrash=1, MaxCmds=5, Variant="intended")
    if tier != "quick":
        mcdef.update(MaxCrash=2, MaxCmds=6, MaxDir=2)
    r = vf.tlc("ApplyTxMC", "ApplyTx.mc.cfg", defines=mcdef, workers=8, heap="12g", timeout=3000)
    if not r.ok:
        raise vf.Infra("ApplyTx.tla (crash configuration) violates its own properties: %s\n%s" % (r.violated, r.error_trace[:3000]))
    if tier == "quick":
        cfgs = [c for c in applycli.all_configs(2, 2, max_dir=1, fails=False) if c["nst"] in ([1, 2], [2, 1], [2, 2])]
    else:
        cfgs = applycli.all_configs(2, 2, max_dir=2, fails=False) + \
            [c for c in applycli.all_configs(3, 2, max_dir=1, fails=False) if c["nst"] in ([2, 1, 2], [1, 2, 1])]
    cfgs = [c for c in cfgs if not (c["mode"] == "all" and any(c["dir"]))]
    scs = []
    from concurrent.futures import ThreadPoolExecutor
    with ThreadPoolExecutor(max_workers=16) as ex:
        counts = list(ex.map(count_points, cfgs))
    for cfg, (rc, cnt) in zip(cfgs, counts):
        if rc != 0:
            raise vf.Infra("undisturbed run failed for %s" % cfg)
        for p in POINTS:
            for n in range(1, cnt.get(p, 0) + 1):
                scs.append({"id": len(scs) + 1, "cfg": cfg, "crashes": [[p, n]]})
                if tier != "quick" and p in ("after_exec", "before_commit", "after_writerev") and n <= 2:
                    # a second crash during the recovery run
                    for p2 in ("after_exec", "before_commit", "before_writerev"):
                        scs.append({"id": len(scs) + 1, "cfg": cfg, "crashes": [[p, n], [p2, 1]]})
    # a long file interrupted twice (the second time during the recovery run, after it has made progress): what the resumed run records
    # about the statements it applied must still allow the next run to continue
    for mode in (("none",) if tier == "quick" else ("none", "file")):
        cfg = {"mode": mode, "dir": [""], "nst": [4], "fail": [0, 0], "count": 0}
        for p in ("after_exec", "after_writerev"):
            for n in (1, 2, 3):
                for p2 in ("after_exec", "before_writerev", "after_writerev"):
                    for n2 in (1, 2):
                        scs.append({"id": len(scs) + 1, "cfg": cfg, "crashes": [[p, n], [p2, n2]]})
    results = applycli.run_all(scs)
    d = vf.scratch("c10")
    try:
        mon, conf, idx = applycli.write_traces(results, d)
        viols, events, _ = vf.monitor_trace("ApplyTxMonitor", "ApplyTxMonitor.cfg", mon)
        percase = {}
        for cid, name in viols:
            percase.setdefault(cid, []).append(name)
        for cid, names in sorted(percase.items()):
            sc = scs[cid - 1]
            case = sig(sc)
            case["formulas"] = ",".join(sorted(names))
            v.violation(case, {"violated": sorted(names), "cmds": idx[cid]["info"]["cmds"], "events": [e for e in results[cid - 1][0] if e["ev"] != "hook"]})
        killed = sum(x[1]["killed"] for x in results)
        notreached = sum(1 for x in results if x[1].get("crash_not_reached"))
        if killed == 0:
            raise vf.Infra("no process was killed: crash hooks are not active (binary built without -tags verif?)")
        v.cov = {"states": r.distinct, "transitions": r.generated, "traces_validated_against_impl": len(scs) - len(percase),
                 "crash_experiments": len(scs), "processes_killed": killed, "second_crash_not_reached": notreached, "configurations": len(cfgs), "events": events,
                 "exhaustive": True, "model": mcdef, "crash_points": POINTS,
                 "explanation": "every hook point x occurrence of every configuration: kill -9, independent read, rerun, independent read"}
        v.samples = [{"cfg": scs[i]["cfg"], "crashes": scs[i]["crashes"], "events": [e for e in results[i][0] if e["ev"] != "hook"][:10]} for i in (len(scs) // 2,)]
        v.assumptions = ["SQLite file database (journal mode as Atlas opens it); SIGKILL of the CLI process models the crash (no power loss / torn pages)",
                         "the advisory lock file left by the dead process expires (--lock-timeout 1ms, private TMPDIR)"]
    finally:
        vf.rm(d)
    return v.finish()
