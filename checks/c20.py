"""C20 - outputs are deterministic: same inputs give byte-identical plans, HCL and sums.

spec : Observe.tla - the outputs are a function of (operation, input); a permuted source keeps the statement multiset and the schema.
bind : C->S. The determ harness executes plan -> format -> hash, MarshalHCL -> EvalHCL -> plan and Dir.Checksum on enumerated inputs
       (foreign-key graphs x roles per dialect, directory name sets with equal version prefixes) repeatedly: sequentially, in several
       processes, concurrently over a worker pool (a second binary under the race detector), with permuted HCL block order and permuted
       MemDir insertion order, MemDir vs LocalDir; the real CLI repeats `migrate diff`, `schema inspect` and `migrate hash` in fresh processes.
       Observations are grouped by (op, input) and validated by TLC.
"""
import hashlib
import json
import os
import random
import re
import sqlite3
import subprocess
from concurrent.futures import ThreadPoolExecutor

import cli
import vf


def dg(*parts):
    h = hashlib.sha256()
    for p in parts:
        h.update(p.encode() if isinstance(p, str) else p)
        h.update(b"\0")
    return h.hexdigest()[:16]


def obs(op, inp, variant, k, plan="", file="", sum_="", sorted_="", same=True, err="", **kw):
    e = {"ev": "obs", "op": op, "input": inp, "variant": variant, "k": k, "plan": plan, "file": file, "sum": sum_, "sorted": sorted_, "same_schema": same, "err": err, "maxparents": 0}
    e.update(kw)
    return e


def stmts_of(sqltext):
    out, cur = [], []
    for line in sqltext.splitlines():
        if line.startswith("--"):
            continue
        cur.append(line)
        if line.rstrip().endswith(";"):
            out.append("\n".join(cur))
            cur = []
    return out


def master(dbpath):
    con = sqlite3.connect(dbpath)
    try:
        return json.dumps(sorted(con.execute("select type, name, tbl_name, sql from sqlite_master where name not like 'sqlite_%'").fetchall()))
    finally:
        con.close()


def hcl_blocks(doc):
    bs, cur = [], []
    for l in doc.split("\n"):
        cur.append(l)
        if l == "}":
            bs.append("\n".join(cur) + "\n")
            cur = []
    return bs


def cli_diff(job):
    """`migrate diff` of one HCL document in a fresh process and directory -> observation"""
    key, doc, variant, k = job
    ws = cli.WS()
    try:
        open(os.path.join(ws.root, "schema.hcl"), "w").write(doc)
        rc, o, e = ws.atlas("migrate", "diff", "f", "--dir", "file://" + ws.dir, "--to", "file://schema.hcl", "--dev-url", "sqlite://dev?mode=memory")
        files = sorted(n for n in os.listdir(ws.dir) if n.endswith(".sql"))
        if rc != 0 or len(files) != 1:
            return obs("cli-diff", key, variant, k, err=("rc=%d %s" % (rc, (o + e).strip()[-200:])) if rc else "no file written")
        text = open(os.path.join(ws.dir, files[0])).read()
        # atlas.sum hashes the (timestamped) file name as well: not comparable across runs, see cli-hash instead
        st = stmts_of(text)
        db = os.path.join(ws.root, "apply.db")
        err = ""
        try:
            cli.sql(db, text)
            m = master(db)
        except sqlite3.Error as ex:
            m, err = "", "generated file does not apply: %s" % ex
        return obs("cli-diff", key, variant, k, plan=dg(*st), file=dg(text), sorted_=dg(*sorted(st)), err=err, master=m, text=text)
    finally:
        ws.close()


def cli_inspect_hash(job):
    key, doc, k = job
    ws = cli.WS()
    try:
        open(os.path.join(ws.root, "schema.hcl"), "w").write(doc)
        rc, o, e = ws.atlas("schema", "apply", "--url", ws.url(), "--to", "file://schema.hcl", "--auto-approve")
        if rc != 0:
            return [obs("cli-inspect", key, "proc", k, err="schema apply failed: " + (o + e)[-200:])]
        out = []
        for r in range(3):
            rc, o, e = ws.atlas("schema", "inspect", "--url", ws.url())
            out.append(obs("cli-inspect", key, "proc", k * 10 + r, file=dg(o), err="" if rc == 0 else e[-200:]))
            rc, o2, e = ws.atlas("schema", "inspect", "--url", ws.url(), "--format", "{{ sql . }}")
            out.append(obs("cli-inspect-sql", key, "proc", k * 10 + r, file=dg(o2), err="" if rc == 0 else e[-200:]))
        return out
    finally:
        ws.close()


def cli_hash(job):
    key, names, k = job
    ws = cli.WS()
    try:
        order = list(names)
        random.Random(k).shuffle(order)
        for n in order:
            ws.write(n, "-- %s\nCREATE TABLE t_%s (id int);\n" % (n, re.sub(r"\W", "_", n)))
        out = []
        for r in range(2):
            ws.hash()
            out.append(obs("cli-hash", key, "proc", k * 10 + r, sum_=dg(open(os.path.join(ws.dir, "atlas.sum")).read())))
        rc, o, e = ws.atlas("migrate", "validate", "--dir", "file://" + ws.dir)
        out.append(obs("cli-validate", key, "proc", k, err="" if rc == 0 else (o + e).strip()[-200:]))
        return out
    finally:
        ws.close()


def run(tier):
    v = vf.Verdict("C20", tier, "exploration")
    quick = tier == "quick"
    vf.build_atlas()
    b = vf.build_harness("core", "determ")
    brace = vf.build_harness("core", "determ", race=True)
    d = vf.scratch("c20")
    rng = random.Random(vf.seed())
    try:
        sample = "0.08" if quick else "1"
        common = ["-n", "3", "-sample", sample, "-seed", str(vf.seed()), "-tmp", d, "-random", "40" if quick else "400"]
        events = []

        def harness(binary, name, extra, env=None):
            p = os.path.join(d, name)
            e = dict(os.environ)
            e.update(env or {})
            r = subprocess.run([binary] + common + extra + ["-out", p], capture_output=True, text=True, env=e, timeout=3000)
            return r, p

        r, p0 = harness(b, "main.ndjson", ["-runs", "3", "-conc", "2", "-perms", "3", "-docs", os.path.join(d, "docs.json")])
        if r.returncode != 0:
            raise vf.Infra("determ failed: " + r.stderr[-800:])
        ninputs = json.loads(r.stdout)["inputs"]
        events += [json.loads(l) for l in open(p0)]
        nproc = 2 if quick else 5
        with ThreadPoolExecutor(max_workers=nproc) as ex:
            rs = list(ex.map(lambda i: harness(b, "proc%d.ndjson" % i, ["-runs", "1", "-conc", "0", "-perms", "0", "-variant", "proc"]), range(nproc)))
        for i, (r, p) in enumerate(rs):
            if r.returncode != 0:
                raise vf.Infra("determ (process %d) failed: %s" % (i, r.stderr[-800:]))
            for l in open(p):
                e = json.loads(l)
                e["k"] = 100 + i
                events.append(e)
        # the race detector next to the worker pool
        r, p = harness(brace, "race.ndjson", ["-runs", "1", "-conc", "3", "-perms", "1", "-sample", "0.03" if quick else "0.2", "-random", "10", "-variant", "proc"], env={"GORACE": "halt_on_error=0 exitcode=0"})
        if r.returncode != 0:
            raise vf.Infra("determ -race failed: " + r.stderr[-800:])
        races = r.stderr.count("WARNING: DATA RACE")
        # its inputs differ (another sample), so its observations form groups of their own: prefix them
        for l in open(p):
            e = json.loads(l)
            e["input"] = "race:" + e["input"]
            if e["variant"] == "proc":
                e["variant"] = "run"
            events.append(e)
        events.append(obs("race-detector", "determ worker pool", "run", 0))
        events.append(obs("race-detector", "determ worker pool", "conc", 1, err="" if races == 0 else "%d data races reported: %s" % (races, r.stderr[:1500])))

        # ---- the real CLI ----------------------------------------------------------------------------
        docs = json.load(open(os.path.join(d, "docs.json")))
        docs = [x for x in docs if x["doc"].count("table \"") >= 2]
        rng.shuffle(docs)
        docs = docs[:6 if quick else 40]
        jobs = []
        for x in docs:
            for k in range(3 if quick else 5):
                jobs.append((x["input"], x["doc"], "proc", k))
            bl = hcl_blocks(x["doc"])
            for k in range(2 if quick else 4):
                pb = list(bl)
                rng.shuffle(pb)
                if "".join(pb) != x["doc"]:
                    jobs.append((x["input"], "".join(pb), "perm", 50 + k))
        with ThreadPoolExecutor(max_workers=16) as ex:
            cres = list(ex.map(cli_diff, jobs))
            ires = list(ex.map(cli_inspect_hash, [(x["input"], x["doc"], k) for x in docs[:4 if quick else 20] for k in range(2)]))
            names = ["1_a.sql", "1_b.sql", "1.sql", "2_a.sql", "10_c.sql"]
            sets = [[n for i, n in enumerate(names) if m & (1 << i)] for m in range(1, 32)]
            hres = list(ex.map(cli_hash, [("dir/" + "+".join(s), s, k) for s in (sets[::4] if quick else sets) for k in range(2 if quick else 4)]))
        # schema comparison for permuted documents: against the first unpermuted observation of the same input
        first = {}
        texts = {}
        for e in cres:
            if e["variant"] != "perm" and e["input"] not in first and not e["err"]:
                first[e["input"]] = e.get("master", "")
        for e in cres:
            if e["variant"] == "perm":
                e["same_schema"] = (e.get("master", "") == first.get(e["input"], ""))
            texts[(e["input"], e["k"])] = e.pop("text", "")
            e.pop("master", None)
            events.append(e)
        for lst in ires + hres:
            events += lst

        # ---- group by (op, input), reference observation first, and let TLC judge ----------------------
        order = {}
        for e in events:
            order.setdefault((e["op"], e["input"]), []).append(e)
        trace, docs_of = [], {}
        for key, lst in order.items():
            lst.sort(key=lambda e: 1 if e["variant"] == "perm" else 0)
            for i, e in enumerate(lst):
                e = dict(e)
                doc = e.pop("doc", None)
                e["id"] = len(trace) + 1
                if doc:
                    docs_of[e["id"]] = doc
                rec = {"ev": "reset" if i == 0 else "obs"}
                rec.update({k: e[k] for k in ("id", "op", "input", "variant", "k", "plan", "file", "sum", "sorted", "same_schema", "err")})
                rec["_mp"] = e.get("maxparents", 0)
                trace.append(rec)
        p = os.path.join(d, "t.ndjson")
        open(p, "w").write(vf.ndjson([{k: x[k] for k in x if k != "_mp"} for x in trace]))
        viols, nev, _ = vf.monitor_trace("Observe", "Observe.cfg", p)
        per = {}
        for oid, name in viols:
            per.setdefault(oid, []).append(name)
        groups = {}
        for oid, names_ in sorted(per.items()):
            e = trace[oid - 1]
            groups.setdefault((e["op"], e["input"], ",".join(sorted(names_))), []).append(e)
        for (op, inp, names_), lst in sorted(groups.items()):
            e = lst[0]
            ref = next(x for x in trace if x["op"] == op and x["input"] == inp)
            dialect = inp.split("/")[0] if op in ("plan", "hcl") else ""
            v.violation({"op": op, "formulas": names_, "dialect": dialect, "variant": e["variant"], "table_with_several_foreign_keys": ref["_mp"] >= 2 or e["_mp"] >= 2, "input": inp},
                        {"violated": names_, "reference": ref, "observation": e, "differing_observations": len(lst), "permuted_document": docs_of.get(e["id"], ""),
                         "cli_text": texts.get((inp, e["k"]), "") if op == "cli-diff" else ""})
        ops = {}
        for e in trace:
            ops.setdefault(e["op"] + "/" + e["variant"], 0)
            ops[e["op"] + "/" + e["variant"]] += 1
        v.cov = {"evaluations": len(trace), "distinct_nontrivial": len(order), "rule": "one evaluation = one execution of an operation on an input; distinct = (operation, input) groups with at least two executions; "
                 "non-trivial = every group is compared against its first execution", "inputs_plan": ninputs, "executions": ops, "processes": nproc + 1, "race_detector_reports": races, "tlc_events": nev}
        v.samples = [trace[len(trace) // 3], trace[-1]]
        v.assumptions = ["digests (sha256, 64 bits kept) stand for the bytes", "permutations move top-level HCL blocks only (column order is part of the schema)",
                         "the race detector observes the schedules of this run only"]
        return v.finish()
    finally:
        vf.rm(d)
