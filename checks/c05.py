"""C05 - planned table changes never lose rows or values of columns that survive.

spec : SqliteModel.tla row semantics (Survives / Rewritten), EngineTrace.tla (RowsOK: per table the bag of rows projected on the surviving
       columns is unchanged, NULLs of a column that becomes NOT NULL take the default; tables outside the change set are untouched)
bind : S->C. The C01 pairs on populated databases (3 rows per table, distinct values per column, NULLs in nullable columns, valid foreign
       keys); rows are read by the harness before and after with quote(); TLC evaluates RowsOK on every observation. In-place ALTER and the
       rebuild path are both forced by the edit mix. Changes that cannot be carried out on a populated table (a rebuild together with a new
       NOT NULL column without default, SqliteModel.Inadmissible) go through the real CLI: refused, schema and rows as before.
"""
from checks import engine
import vf

NAMES = {"RowsNotPreserved"}


def run(tier):
    v = vf.Verdict("C05", tier, "exploration")
    viols, full, n, info = engine.run_engine(tier, cli_every=150 if tier == "quick" else 20)
    bad = engine.report(v, viols, full, NAMES)
    # the CLI slice: sampled pairs and every inadmissible change (SqliteModel.Inadmissible) inside the CLI's transaction
    cviols, cfull = info.pop("cli", ([], []))
    for i, name in cviols:
        if name in NAMES | {"InadmissibleChangeAccepted", "RefusalNotClean"}:
            o = cfull[i - 1]
            case = engine.case_of(o, name)
            case["part"] = "cli"
            case["mustrefuse"] = bool(o.get("mustrefuse"))
            v.violation(case, engine.detail_of(o))
    nrefuse = sum(1 for o in cfull if o.get("mustrefuse") and not o["skipped"])
    rebuilt = sum(1 for o in full if any("INSERT INTO `new_" in s for s in (o.get("stmts") or [])))
    inplace = sum(1 for o in full if o.get("stmts") and not any("INSERT INTO `new_" in s for s in o["stmts"]))
    distinct = len({engine.case_of(o, "")["edit_fields"] + "|" + json_key(o) for o in full})
    v.cov = {"evaluations": n, "distinct_nontrivial": distinct, "rule": "one evaluation = one (populated current, desired) pair from SqliteModel.tla executed on a real SQLite file; "
             "distinct by (from, to) state pair; non-trivial = the plan is non-empty", "plans_with_table_rebuild": rebuilt, "plans_in_place": inplace,
             "skipped_by_engine": info["skipped"], "cli_pairs": len(cfull), "inadmissible_changes_through_cli": nrefuse}
    v.samples = [{"edit": engine.diffstate(o["from"], o["to"]), "rows_before": o["rows_before"], "rows_after": o["rows_after"], "statements": o.get("stmts")}
                 for o in full if any("INSERT INTO `new_" in s for s in (o.get("stmts") or []))][:1]
    v.assumptions = ["values are compared through SQLite's quote(); a column survives iff it is stored (not generated), present before and after, with the same type",
                     "the only rewrite allowed is NULL -> default for a column that becomes NOT NULL"]
    return v.finish()


def json_key(o):
    import json
    return json.dumps([o["from"], o["to"]], sort_keys=True)
