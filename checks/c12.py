"""C12 - resuming a partially applied file whose applied part changed is refused, cleanly.

spec : Apply.tla with the environment's Edit actions (change / insert / delete / swap at every index, truncate to every length)
bind : C->S at API level (every file length <= S x progress k x edit), monitored by ApplyMonitor.tla (Refusal, NoSpuriousRefusal,
       NeverCrashes, CleanRunCompletes = tail resume) and conformance-checked against Apply.tla; the same scenarios through the
       real CLI on SQLite (tx-mode none) in checks/c12cli.py.
"""
from checks import applyapi
import vf


def classify(c):
    """Signature fields of a C12 scenario (over the case, never over the observation)."""
    e, k = c["edit"], c["k"]
    n = len(c["shape"][0])
    kind, j = e["kind"], e["j"]
    if kind == "truncate":
        touches = j < k                 # new length j < applied k: applied part lost
        newlen = j
    elif kind == "swap":
        touches = j <= k
        newlen = n
    elif kind == "insert":
        touches = j <= k
        newlen = n + 1
    elif kind == "delete":
        touches = j <= k
        newlen = n - 1
    else:
        touches = j <= k
        newlen = n
    return {"part": "api", "edit": kind, "applied_part_changed": touches, "k": k, "n": n, "newlen": newlen, "j": j,
            "tail_length_changed": (not touches) and newlen != n, "shorter_than_applied": newlen < k,
            "second_file": len(c["shape"]) > 1}


def run(tier):
    v = vf.Verdict("C12", tier, "model_checking")
    maxs = 4 if tier == "quick" else 5
    mc = dict(MaxS=maxs, MaxEdits=1 if tier == "quick" else 2)
    r = vf.tlc("ApplyMC", "Apply.c12.cfg", defines=mc, workers=8, heap="8g", timeout=1800)
    if not r.ok:
        raise vf.Infra("Apply.tla (edit configuration) violates its own properties: %s\n%s" % (r.violated, r.error_trace[:3000]))
    d, trace, cases, info = applyapi.record("c12", ["-maxs", str(5)])
    try:
        byid = {c["id"]: c for c in cases}
        viols, events, _ = vf.monitor_trace("ApplyMonitor", "ApplyMonitor.cfg", trace)
        percase = {}
        for cid, name in viols:
            percase.setdefault(cid, []).append(name)
        for cid, names in sorted(percase.items()):
            names.sort(key=lambda n: applyapi.PRIORITY.index(n) if n in applyapi.PRIORITY else 99)
            c = byid[cid]
            case = classify(c)
            case.update({"shape": c["shape"], "first_violation": names[0], "panic": bool(c.get("panic"))})
            v.violation(case, {"violated": names, "panic": c.get("panic"), "events": applyapi.events_of(trace, c)})
        drift, visited, accepted, more = vf.conform_trace("ApplyTrace", "ApplyTrace.cfg", trace, applyapi.case_locator(cases))
        for dr in drift:
            c = byid[dr["case"]]
            v.drift_note("execution %s is not a behaviour of Apply.tla at event +%d: %s" % (dr["case"], dr["offset_in_case"], classify(c)))
        cli = cli_part(v, tier)
        v.cov = {"states": r.distinct, "transitions": r.generated,
                 "traces_validated_against_impl": len(cases) - len(percase) + cli.get("ok", 0),
                 "events": events, "api_scenarios": len(cases), "cli_scenarios": cli.get("n", 0), "exhaustive": True,
                 "spec_states_visited_by_impl_traces_min": visited, "spec_states_reachable": r.distinct, "model": mc,
                 "conformance_accepted_events": accepted, "conformance_incomplete": more,
                 "explanation": "files of <= 5 statements x every progress k x change/insert/delete/swap at every index and truncation to every length"}
        v.samples = [{"case": classify(cases[i]), "events": applyapi.events_of(trace, cases[i], 25)} for i in (len(cases) // 2,)]
        v.assumptions = ["scripted stores implement journal-append / revision-upsert semantics", "SHA-256 injective",
                         "the directory is re-hashed after the edit (otherwise C06 refuses first)"]
    finally:
        vf.rm(d)
    return v.finish()


def cli_part(v, tier):
    try:
        from checks import c12cli
    except ImportError:
        return {}
    return c12cli.run(v, tier)
