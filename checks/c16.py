"""C16 - schema-scoped plans are schema-agnostic; a requested qualifier is always used.

spec : PlanCatalog.tla / PlanCatalogTrace.tla (QualOK guard, SchemaStatementInScopedPlan, CrossSchemaChangesPlanned, PlannerError)
bind : C->S. A catalogue of change sets (tables, enum columns, indexes, comments, checks, foreign keys, drops, modifications, renames,
       combinations) x qualifier in {empty (what a schema-bound connection requests), custom} x {MySQL, PostgreSQL}; every forward and
       reverse statement is tokenised (qualifier of every table/type/index reference, mention of the schema's own name) and TLC checks
       the guard; change sets that span two schemas or contain schema-level changes must be refused.  The FK-graph scenarios of C04 are
       re-planned with both qualifier settings as well.
"""
from checks import plancat
import vf


def run(tier):
    v = vf.Verdict("C16", tier, "model_checking")
    r = vf.tlc("PlanCatalogMC", "PlanCatalog.mc.cfg", defines={"MaxLen": 5}, workers=8, heap="8g", timeout=1800)
    if not r.ok:
        raise vf.Infra("PlanCatalog.tla violates its own invariants: %s" % r.violated)
    batches = [["-qual"], ["-n", "2", "-roles", "all", "-req", "none,q1"],
               ["-n", "3", "-roles", "all", "-req", "none,q1"] + (["-sample", "0.15"] if tier == "quick" else [])]
    total = bad = events = 0
    samples = []
    for args in batches:
        d, trace, cases, info = plancat.record(args)
        try:
            per, ev = plancat.validate(trace)
            events += ev
            total += len(cases)
            bad += len(per)
            byid = {c["id"]: c for c in cases}
            for cid, names in sorted(per.items())[:300]:
                c = byid[cid]
                case = {"dialect": c["dialect"], "scenario": c["roles"], "req": c["req"], "kind": c["dir"], "first_violation": names[0]}
                v.violation(case, {"violated": names, "planner_error": c.get("err"), "statements": c.get("stmts")})
            samples.append({"scenario": {k: cases[0][k] for k in ("dialect", "roles", "req", "dir")}, "statements": cases[0].get("stmts")})
        finally:
            vf.rm(d)
    v.cov = {"states": r.distinct, "transitions": r.generated, "traces_validated_against_impl": total - bad, "plans": total, "events": events,
             "batches": batches, "explanation": "change-kind catalogue x {empty, custom} qualifier x {mysql, postgres}, forward + reverse statements; FK-graph scenarios re-planned with qualifiers"}
    v.samples = samples[:2]
    v.assumptions = ["references are found at TABLE / REFERENCES / ON / TYPE / DROP|ALTER INDEX (PostgreSQL) positions and as dotted pairs of quoted identifiers",
                     "ModifySchema in in-place mode on the connected schema is by design and not exercised (deferred mode only)",
                     "a table whose enum type lives in another schema is not in the must-reject set (the repository's TestPlanChanges/50 expects it to be planned)"]
    return v.finish()
