"""C08 - statement scanner is total, lossless and position-accurate on arbitrary input.

spec : Lexer.tla (reference scanner over a 14-symbol alphabet: quotes, parens, comments, ';', options BackslashEscapes / HashComments),
       LexerMC.tla (ordered-partition property for ALL inputs <= N, predictions exported), ScanTrace.tla (output structure of any scan)
bind : S->C  the reference's predicted statement list for every input <= NP compared with the real migrate.Scanner (a disagreement
             that does not break an invariant is DRIFT: C08 constrains positions and losslessness, not one tokenisation);
       C->S  every string over a 14-character alphabet up to length 4 (5 thorough), grammar-generated inputs (quotes, nested comments,
             parentheses, dollar quotes, BEGIN/END, BEGIN ATOMIC, TRY/CATCH, DELIMITER commands, atlas:delimiter headers, GO batches,
             multi-byte runes) and random bytes, scanned under the four option sets the drivers use (+3 extended sets, reported only);
             TLC evaluates Total / InRange / Increasing / TextAtPos / Lossless on every observation.
"""
import json
import os
import subprocess
import vf


def run(tier):
    v = vf.Verdict("C08", tier, "model_checking")
    n, nq, npred = (4, 4, 4) if tier == "quick" else (5, 5, 4)
    b = vf.build_harness("core", "scan")
    r = vf.tlc("LexerMC", "LexerMC.cfg", defines={"N": n, "NQ": nq, "NP": npred}, heap="12g", timeout=3000, keep=True)
    try:
        if not r.ok:
            raise vf.Infra("Lexer.tla violates its own properties (specification bug):\n" + r.out[-2000:])
        ninputs = vf.tla_prints(r, "INPUTS")[0][1]
        res = vf.run_json([b, "model", os.path.join(r.dir, "lex.ndjson")], timeout=1800)
    finally:
        vf.rm(r.dir)
    for m in res["mismatches"]:
        if m["kind"] == "crash":
            v.violation({"part": "model", "kind": "crash", "opt": m["opt"], "input": m["input"]}, m)
        else:
            v.drift_note("reference and scanner tokenise differently: opt=%s input=%r want=%s got=%s" % (m["opt"], m["input"], m["want"], m["got"]))
    d = vf.scratch("c08")
    try:
        trace = os.path.join(d, "t.ndjson")
        p = subprocess.run([b, "trace", trace, tier, str(vf.seed())], stdout=subprocess.PIPE, stderr=subprocess.PIPE, text=True, timeout=3000)
        if p.returncode != 0:
            raise vf.Infra("scan trace failed: " + p.stderr[-2000:])
        info = json.loads(p.stdout)
        viols, events, _ = vf.monitor_trace("ScanTrace", "ScanTrace.cfg", trace, max_events=40000, independent=True)
        if viols:
            full = open(trace + ".full").read().split("\n")
        seen = set()
        for oid, name in viols:
            o = json.loads(full[oid - 1])
            key = (name, o["opt"], tuple(o["feat"]))
            if key in seen and len(seen) > 40:
                continue
            seen.add(key)
            case = {"part": "trace", "formula": name, "opt": o["opt"], "gen": o["gen"], "features": o["feat"],
                    "has_delimiter_header": "header" in o["feat"], "input": o["input"]}
            v.violation(case, {"formula": name, "obs": o})
    finally:
        vf.rm(d)
    v.cov = {"states": 2 * ninputs, "transitions": 2 * ninputs, "traces_validated_against_impl": res["cases"] - len([m for m in res["mismatches"] if m["kind"] == "crash"]) + events - len(viols),
             "reference_inputs_checked_by_tlc": ninputs, "predictions_compared": res["cases"], "observations": events,
             "inputs_by_generator": info["inputs_by_generator"], "results": info["results"], "features_seen": info["features"], "exhaustive": True,
             "explanation": "states/transitions = reference evaluations by TLC (Lexer.tla is a function-style specification: all inputs <= %d x 2 option sets); "
                            "observations = real scans validated by ScanTrace.tla" % n}
    v.samples = (res.get("samples") or [])[:1] + [{k: s[k] for k in ("opt", "input", "res", "stmts", "gaps")} for s in info["samples"][:2]]
    v.assumptions = ["gap classification (blank / comment / delimiter / DELIMITER command / atlas:delimiter header / GO line) by the harness's own classifier; "
                     "the set of delimiters in effect is over-approximated by every 'delimiter X' occurrence in the input",
                     "verdict domain = option sets used by community drivers (migrate.Stmts, mysql, postgres, sqlite); other sets are reported as coverage only",
                     "coverage-guided fuzzing is replaced by exhaustive small-alphabet enumeration + grammar generation"]
    return v.finish()
