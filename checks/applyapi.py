"""Shared by C09 and C12: Executor at API level, Apply.tla / ApplyMonitor.tla / ApplyTrace.tla."""
import bisect
import json
import os
import subprocess
import vf

# violation names that belong to each property
C09_NAMES = {"RevNotAhead", "InOrder", "NoSkip", "RepeatBound", "ExactlyOnce", "ResumePoint", "CleanRunCompletes",
             "FaultFreeRunSucceeds", "ErrorReported", "NoPendingIffNothingPending", "NeverCrashes", "StatementOfThisFile"}
PRIORITY = ["NeverCrashes", "RevNotAhead", "NoExecAfterChangedHistory", "Refusal", "NoSpuriousRefusal", "ResumePoint", "InOrder", "NoSkip",
            "RepeatBound", "ExactlyOnce", "StatementOfThisFile", "CleanRunCompletes", "FaultFreeRunSucceeds", "ErrorReported",
            "NoPendingIffNothingPending"]


def record(mode, args):
    d = vf.scratch("api")
    b = vf.build_harness("core", "applyapi")
    trace, cases = os.path.join(d, "trace.ndjson"), os.path.join(d, "cases.json")
    p = subprocess.run([b, "-mode", mode, "-out", trace, "-cases", cases, "-seed", str(vf.seed())] + args,
                       stdout=subprocess.PIPE, stderr=subprocess.PIPE, text=True, timeout=1800)
    if p.returncode != 0:
        vf.rm(d)
        raise vf.Infra("applyapi failed: " + p.stderr[-3000:])
    return d, trace, json.load(open(cases)), json.loads(p.stdout)


def case_locator(cases):
    firsts = [c["first"] for c in cases]

    def loc(line):
        i = bisect.bisect_right(firsts, line) - 1
        c = cases[max(i, 0)]
        return c["id"], c["first"], c["last"]
    return loc


def events_of(trace, c, limit=60):
    out = []
    with open(trace) as f:
        for n, line in enumerate(f, 1):
            if n < c["first"]:
                continue
            if n > c["last"] or len(out) >= limit:
                break
            e = json.loads(line)
            out.append({k: v for k, v in e.items() if v not in (0, "", [], False) or k in ("ok",) and e["ev"] in ("exec", "write")})
    return out
