"""Shared by C04 / C16 / C17(catalogue): plans of the MySQL and PostgreSQL planners validated against PlanCatalog.tla."""
import json
import os
import subprocess
import vf


def record(args):
    d = vf.scratch("pc")
    b = vf.build_harness("core", "plancat")
    trace, cases = os.path.join(d, "t.ndjson"), os.path.join(d, "c.json")
    p = subprocess.run([b, "-out", trace, "-cases", cases, "-seed", str(vf.seed())] + args, stdout=subprocess.PIPE, stderr=subprocess.PIPE, text=True, timeout=3000)
    if p.returncode != 0:
        vf.rm(d)
        raise vf.Infra("plancat failed: " + p.stderr[-3000:])
    return d, trace, json.load(open(cases)), json.loads(p.stdout)


def validate(trace):
    viols, events, states = vf.monitor_trace("PlanCatalogTrace", "PlanCatalogTrace.cfg", trace, max_events=20000, heap="1500m")
    per = {}
    for cid, name, lno in viols:
        per.setdefault(cid, []).append(name)
    return per, events


def validate_cols(trace):
    """column-level scenarios (plancat -colmod) against ColCatalogTrace.tla; a clause the tokeniser cannot interpret is not a verdict"""
    viols, events, states = vf.monitor_trace("ColCatalogTrace", "ColCatalogTrace.cfg", trace, max_events=20000, heap="1500m")
    per = {}
    for cid, name, lno in viols:
        per.setdefault(cid, []).append(name)
    unk = [cid for cid, names in per.items() if "UninterpretedClause" in names]
    if unk:
        raise vf.Infra("plancat -colmod: %d scenarios contain a clause the tokeniser does not interpret (first: scenario %d)" % (len(unk), unk[0]))
    return per, events


def colmod(v, want_dir, part):
    """run the column-level scenarios and report those of direction want_dir (colmod-up: C01, colmod-updown: C17) to the verdict"""
    mc = {}
    for cfg in ("ColCatalog.pg.cfg", "ColCatalog.my.cfg"):
        r = vf.tlc("ColCatalog", cfg, workers=4, heap="2g", timeout=600)
        if not r.ok:
            raise vf.Infra("ColCatalog.tla violates its own obligations under %s: %s" % (cfg, r.violated))
        mc[cfg] = r.distinct
    d, trace, cases, _ = record(["-colmod"])
    try:
        per, events = validate_cols(trace)
        byid = {c["id"]: c for c in cases}
        mine = [c for c in cases if c["dir"].endswith(want_dir)]
        bad = 0
        for cid, names in sorted(per.items()):
            c = byid[cid]
            if not c["dir"].endswith(want_dir):
                continue
            bad += 1
            case = {"part": part, "dialect": c["dialect"], "dir": c["dir"], "scenario": c["roles"], "first_violation": names[0]}
            case.update(c.get("extra") or {})
            v.violation(case, {"violated": names, "planner_error": c.get("err"), "statements": c.get("stmts")})
        planned = sum(1 for c in mine if not c.get("err"))
        return {"scenarios": len(mine), "planned": planned, "bad": bad, "events": events, "model_states": mc}
    finally:
        vf.rm(d)


def shape(c):
    """signature fields of a scenario"""
    g = [tuple(e) for e in c.get("graph") or []]
    n = c.get("n", 0)
    selfloops = sorted({a for a, b in g if a == b})
    # is there a cycle of length >= 2 ?
    adj = {}
    for a, b in g:
        if a != b:
            adj.setdefault(a, set()).add(b)
    cyc = False
    for s0 in range(n):
        seen, stack = set(), [s0]
        while stack:
            x = stack.pop()
            for y in adj.get(x, ()):
                if y == s0:
                    cyc = True
                if y not in seen:
                    seen.add(y)
                    stack.append(y)
    return {"dialect": c["dialect"], "n": n, "graph": [list(e) for e in g], "roles": c["roles"], "req": c["req"], "dir": c["dir"],
            "has_cycle": cyc, "has_self_reference": bool(selfloops),
            "dropped_table_with_self_reference": any(c["roles"][a] == "d" for a in selfloops) if c["dir"] != "qual" and c["roles"] else False}
