"""Shared by C04 / C16 / C17(catalogue): plans of the MySQL and PostgreSQL planners validated against PlanCatalog.tla."""
import json
import os
import subprocess
import vf


def record(args):
    d = vf.scratch("pc")
    b = vf.build_harness("core", "plancat")
    trace, cases = os.path.join(d, "t.ndjson"), os.path.join(d, "c.json")
    p = subprocess.run([b, "-out", trace, "-cases", cases, "-seed", str(vf.seed())] + args, stdout=subprocess.PIPE, stderr=subprocess.PIPE, text=True, timeout=3000)
    if p.returncode != 0:
        vf.rm(d)
        raise vf.Infra("plancat failed: " + p.stderr[-3000:])
    return d, trace, json.load(open(cases)), json.loads(p.stdout)


def validate(trace):
    viols, events, states = vf.monitor_trace("PlanCatalogTrace", "PlanCatalogTrace.cfg", trace, max_events=20000, heap="1500m")
    per = {}
    for cid, name, lno in viols:
        per.setdefault(cid, []).append(name)
    return per, events


def shape(c):
    """signature fields of a scenario"""
    g = [tuple(e) for e in c.get("graph") or []]
    n = c.get("n", 0)
    selfloops = sorted({a for a, b in g if a == b})
    # is there a cycle of length >= 2 ?
    adj = {}
    for a, b in g:
        if a != b:
            adj.setdefault(a, set()).add(b)
    cyc = False
    for s0 in range(n):
        seen, stack = set(), [s0]
        while stack:
            x = stack.pop()
            for y in adj.get(x, ()):
                if y == s0:
                    cyc = True
                if y not in seen:
                    seen.add(y)
                    stack.append(y)
    return {"dialect": c["dialect"], "n": n, "graph": [list(e) for e in g], "roles": c["roles"], "req": c["req"], "dir": c["dir"],
            "has_cycle": cyc, "has_self_reference": bool(selfloops),
            "dropped_table_with_self_reference": any(c["roles"][a] == "d" for a in selfloops) if c["dir"] != "qual" and c["roles"] else False}
