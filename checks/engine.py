"""Shared by C01 / C05 / C17 (and C03): SqliteModel.tla pairs executed on a real SQLite engine through Atlas's SQLite driver."""
import json
import os
import subprocess
import vf

SEEDS = ["Seed1", "Seed2", "Seed3", "Seed4", "Seed5", "Seed6"]


def export_pairs(tier, d):
    jobs = [dict(module="SqliteModelMC", cfg="SqliteModelMC.cfg", defines={"Seed": s, "Two": "FALSE", "Sample": 0}, heap="8g", timeout=3600, keep=True) for s in SEEDS]
    rs = vf.tlc_many(jobs, parallel=6)
    out = os.path.join(d, "pairs.ndjson")
    n = 0
    try:
        with open(out, "w") as fo:
            for s, r in zip(SEEDS, rs):
                if not r.ok:
                    raise vf.Infra("SqliteModel.tla obligations fail for %s (specification bug):\n%s" % (s, r.out[-2500:]))
                n += json.loads(vf.tla_prints(r, "STATS")[0][1])["all"]
                fo.write(open(os.path.join(r.dir, "pairs.ndjson")).read())
                rp = os.path.join(r.dir, "refuse.ndjson")
                if os.path.exists(rp):
                    with open(os.path.join(d, "refuse.ndjson"), "a") as fr:
                        fr.write(open(rp).read())
    finally:
        for r in rs:
            vf.rm(r.dir)
    return out, n


def diffstate(a, b):
    out = []
    for t in a:
        if json.dumps(a[t], sort_keys=True) != json.dumps(b.get(t), sort_keys=True):
            for k in a[t]:
                if json.dumps(a[t][k], sort_keys=True) != json.dumps((b.get(t) or {}).get(k), sort_keys=True):
                    out.append([t, k, a[t][k], (b.get(t) or {}).get(k)])
    return out


def run_engine(tier, cli_every=0, inline_updown=False):
    """returns (viols [(id, name)], observations list, npairs, info); with cli_every > 0 every cli_every-th pair is also run through the
    real CLI (`schema inspect` of the desired database -> HCL -> `schema apply --auto-approve` -> `schema diff`): info["cli"] = (viols, observations)"""
    b = vf.build_harness("cli", "engine")
    env = dict(os.environ)
    if cli_every:
        env.update(VERIF_ATLAS=vf.build_atlas(), VERIF_CLI_EVERY=str(cli_every))
    if inline_updown:
        env["VERIF_INLINE"] = "1"     # C17: up / down with an inspected inline-UNIQUE database as the desired state
    d = vf.scratch("eng")
    env["VERIF_REFUSE"] = os.path.join(d, "refuse.ndjson")   # inadmissible pairs: run through the CLI when a CLI slice is requested
    try:
        pairs, n = export_pairs(tier, d)
        out = os.path.join(d, "o.ndjson")
        p = subprocess.run([b, pairs, out, "16"], stdout=subprocess.PIPE, stderr=subprocess.PIPE, text=True, env=dict(env, VERIF_SCRATCH=d), timeout=3600)
        if p.returncode != 0:
            raise vf.Infra("engine harness failed: " + p.stderr[-2000:])
        info = json.loads(p.stdout)
        if cli_every and os.path.exists(out + ".cli"):
            cv, _, _ = vf.monitor_trace("EngineTrace", "EngineTrace.cfg", out + ".cli", max_events=300, independent=True)
            info["cli"] = (cv, [json.loads(x) for x in open(out + ".cli.full").read().split("\n") if x])
        if info["skipped"] > n // 10:
            raise vf.Infra("the harness could not create %d of %d start states: %s" % (info["skipped"], n, info["skip_reasons"]))
        viols, events, _ = vf.monitor_trace("EngineTrace", "EngineTrace.cfg", out, max_events=300, independent=True)
        full = [json.loads(x) for x in open(out + ".full").read().split("\n") if x]
        return viols, full, n, info
    finally:
        vf.rm(d)


def case_of(o, name):
    delta = diffstate(o["from"], o["to"])
    # a table whose only edit is the AUTOINCREMENT attribute (same key)
    by_table = {}
    for t, k, _, _ in delta:
        by_table.setdefault(t, set()).add(k)
    toggled = any(ks == {"autoinc"} for ks in by_table.values())
    # AUTOINCREMENT toggled on a table whose primary key stays the same (whatever else changes in that table)
    samekey = any("autoinc" in ks and "pk" not in ks for ks in by_table.values())
    # a table that exists before and after but keeps none of its columns (every one is dropped while others are added)
    def present(t):
        return {c for c, r in (t or {}).get("cols", {}).items() if r["type"] != "-"}
    nosurv = any(present(o["from"].get(t)) and present(o["to"].get(t)) and not (present(o["from"].get(t)) & present(o["to"].get(t))) for t in o["from"])
    return {"part": "engine", "formula": name, "edit_fields": ",".join(sorted({x[1] for x in delta})), "autoincrement_only_edit_on_a_table": toggled, "table_keeps_none_of_its_columns": nosurv,
            "autoincrement_toggled_key_unchanged": samekey, "edit": delta}


def detail_of(o):
    return {"err": o["err"], "downerr": o["downerr"], "statements": o.get("stmts"), "down": o.get("down"), "second_changes": o.get("second_changes"),
            "after_vs_to": diffstate(o["to"], o["after"]), "rows_before": o["rows_before"], "rows_after": o["rows_after"]}


def report(v, viols, full, names):
    bad = set()
    for i, name in viols:
        if name not in names:
            continue
        o = full[i - 1]
        bad.add(i)
        v.violation(case_of(o, name), detail_of(o))
    return bad


def sample(full, k=1):
    out = []
    for o in full[len(full) // 3::max(1, len(full) // 3)][:k]:
        out.append({"edit": diffstate(o["from"], o["to"]), "statements": o.get("stmts"), "second": o["second"], "reversible": o["reversible"]})
    return out
