"""X01 (not a listed property; growth of the specification, DESIGN 9.10) - the SQLite advisory lock.

spec : Lock.tla. TLC finds MutualExclusion violated on the model of the lock as written (check, then create) and holding on the atomic
       variant.
bind : S->C. The counterexample (and the sequential schedule in which the second process must be refused) is replayed with two real
       `atlas migrate apply` processes on one SQLite file: a process is held at the hook between the lock file check and its creation
       (sqlite_lock_checked) and before its first statement (before_exec); the scheduler releases them in the order of the behaviour.
       Verdict lines: this check is informational - it prints FINDING lines and always exits 0 unless the replay could not be performed.
"""
import os
import re
import subprocess
import time

import cli
import vf


def wait_for(path, secs=20):
    t = time.time()
    while time.time() - t < secs:
        if os.path.exists(path):
            return True
        time.sleep(0.01)
    return False


class Proc:
    def __init__(self, ws, name):
        self.ws, self.name = ws, name
        self.g_lock = os.path.join(ws.root, name + ".lockgate")
        self.g_exec = os.path.join(ws.root, name + ".execgate")
        self.p = None

    def start(self):
        env = self.ws.env({"VERIF_GATE": "sqlite_lock_checked:%s,before_exec:%s" % (self.g_lock, self.g_exec), "VERIF_TRACE": os.path.join(self.ws.root, self.name + ".trace")})
        self.p = subprocess.Popen([cli.ATLAS, "migrate", "apply", "--url", self.ws.url(), "--dir", "file://" + self.ws.dir, "--tx-mode", "none", "--lock-timeout", "30s"],
                                  cwd=self.ws.root, env=env, stdout=subprocess.PIPE, stderr=subprocess.PIPE, text=True)

    def checked(self):
        """the process decided to take the lock (file absent or expired) and is held before creating it; False: it ended (refused)"""
        t = time.time()
        while time.time() - t < 20:
            if os.path.exists(self.g_lock + ".reached"):
                return True
            if self.p.poll() is not None:
                return False
            time.sleep(0.01)
        raise vf.Infra("process %s neither reached the lock hook nor ended" % self.name)

    def create(self):
        open(self.g_lock, "w").close()
        t = time.time()
        while time.time() - t < 20:
            if os.path.exists(self.g_exec + ".reached"):
                return True      # holds the lock, about to execute its first statement
            if self.p.poll() is not None:
                return False
            time.sleep(0.01)
        raise vf.Infra("process %s did not reach its first statement" % self.name)

    def finish(self):
        open(self.g_exec, "w").close()
        out, err = self.p.communicate(timeout=60)
        return self.p.returncode, out + err


def scenario(schedule):
    ws = cli.WS()
    try:
        ws.write("1_a.sql", "CREATE TABLE IF NOT EXISTS j (v INTEGER, i INTEGER);\nINSERT INTO j VALUES (1, 1);\n")
        ws.hash()
        procs = {}
        holding = set()
        log = []
        both = False
        for step in schedule:
            a, p = step["a"], step["p"]
            if a == "check":
                procs[p] = Proc(ws, p)
                procs[p].start()
                ok = procs[p].checked()
                log.append("%s check -> %s" % (p, "may take the lock" if ok else "refused"))
                if not ok:
                    rc, out = procs[p].p.returncode, procs[p].p.communicate()[1]
                    log.append("   %s" % out.strip().split("\n")[-1][:160])
            elif a == "create":
                if procs[p].create():
                    holding.add(p)
                    log.append("%s create -> holding (%s hold now)" % (p, sorted(holding)))
                    both = both or len(holding) > 1
            elif a == "unlock":
                rc, out = procs[p].finish()
                holding.discard(p)
                log.append("%s runs and unlocks: rc=%d %s" % (p, rc, out.strip().split("\n")[-1][:120]))
        for p, pr in procs.items():
            if pr.p.poll() is None:
                rc, out = pr.finish()
                log.append("%s runs and unlocks: rc=%d %s" % (p, rc, out.strip().split("\n")[-1][:120]))
        journal = cli.read_disk(ws.db)["journal"]
        return both, journal, log
    finally:
        ws.close()


def run(tier):
    vf.build_atlas()
    r = vf.tlc("Lock", "Lock.race.cfg", workers=1, heap="1g", timeout=300)
    if "MutualExclusion" not in " ".join(r.violated):
        raise vf.Infra("Lock.tla: TLC did not produce the expected counterexample: %s" % r.violated)
    hist_lines = [l for l in r.out.split("\n") if "hist =" in l]
    # the counterexample's last state: the whole history
    text = r.out[r.out.rindex("hist ="):]
    steps = [{"p": m.group(1), "a": m.group(2)} for m in re.finditer(r'\[p \|-> "([^"]+)", a \|-> "([^"]+)"\]', text.split("/\\ ", 1)[0] if "/\\ " in text else text)]
    if not steps:
        raise vf.Infra("could not read the counterexample history")
    at = vf.tlc("Lock", "Lock.atomic.cfg", workers=2, heap="1g", timeout=300)
    both, journal, log = scenario(steps + [{"a": "unlock", "p": "p1"}, {"a": "unlock", "p": "p2"}])
    print("[X01] Lock.tla race configuration: MutualExclusion violated by", [(s["p"], s["a"]) for s in steps])
    print("[X01] Lock.tla atomic variant: invariants hold on %d states: %s" % (at.distinct, at.ok))
    for l in log:
        print("   " + l)
    if both:
        print("FINDING X01 both processes held the SQLite advisory lock at the same time (check-then-create is not atomic); journal after both ran: %s" % journal)
    else:
        print("[X01] the counterexample did not reproduce on the implementation")
    seq = [{"a": "check", "p": "p1"}, {"a": "create", "p": "p1"}, {"a": "check", "p": "p2"}, {"a": "unlock", "p": "p1"}]
    both2, journal2, log2 = scenario(seq)
    for l in log2:
        print("   " + l)
    refused = any("p2 check -> refused" in l for l in log2)
    print("[X01] sequential schedule: second process %s while the first holds the lock" % ("refused" if refused else "NOT refused"))
    return 0
