"""C14 - dev database is never damaged: refused if not empty, always handed back empty.

spec : DevDB.tla (the dev-database protocol: cleanliness check before any write, replay with a failure at any statement, deferred
       restore, directory written only by a successful `migrate diff`), DevDBMonitor.tla
bind : C->S. The real CLI on SQLite for every command that takes --dev-url (migrate diff / validate / lint, schema apply / diff with
       SQL and HCL sources) x directories / schemas in which statement k is invalid for k = 1..N and the all-valid case, with tables,
       indexes, views and triggers x {dev database absent, empty, holding 1 table with rows, holding 2 tables with rows, holding only
       a view}; the dev database (full logical dump + sqlite_master) and the directory bytes are compared before / after; TLC evaluates
       Untouched / RefusedIfDirty / HandedBackEmpty / DirOnlyByDiff on every invocation.
"""
import hashlib
import json
import os
import shutil
import sqlite3
from concurrent.futures import ThreadPoolExecutor

import cli
import vf

STMTS = ["CREATE TABLE t1 (id integer NOT NULL, v text NULL, PRIMARY KEY (id));",
         "CREATE VIEW v1 AS SELECT id FROM t1;",
         "CREATE INDEX i1 ON t1 (v);",
         "CREATE TABLE t2 (id integer NOT NULL, t1_id integer NULL, CONSTRAINT f FOREIGN KEY (t1_id) REFERENCES t1 (id));",
         "CREATE TRIGGER tr1 AFTER INSERT ON t1 BEGIN UPDATE t1 SET v = 'x' WHERE id = NEW.id; END;",
         "DROP TABLE t2;"]
BAD = "INSERT INTO missing_table VALUES (1);"
ORDERS = [[0, 1, 2, 3], [1 - 1 + 0, 3, 5, 1], [0, 2, 4, 3]]          # statement index lists; views / triggers / drops at various places
VIEW_FIRST = ["CREATE VIEW v0 AS SELECT 1 AS one;", BAD, STMTS[0]]      # a view exists when the failure happens, no table yet

DEV_STATES = {
    "absent": None,
    "empty": "",
    "one-table": "CREATE TABLE users (id integer PRIMARY KEY, name text); INSERT INTO users VALUES (1, 'a'), (2, 'b');",
    "two-tables": "CREATE TABLE users (id integer PRIMARY KEY, name text); INSERT INTO users VALUES (1, 'a'); CREATE TABLE posts (id integer); INSERT INTO posts VALUES (7);",
    "view-only": "CREATE VIEW lonely AS SELECT 1 AS x;",
    # a virtual table with rows (and the shadow tables the module keeps for it)
    "virtual-only": "CREATE VIRTUAL TABLE docs USING fts4(body); INSERT INTO docs (body) VALUES ('hello'), ('world');",
}


def dev_fingerprint(path):
    if not os.path.exists(path):
        return "absent", True
    con = sqlite3.connect("file:%s?mode=ro" % path, uri=True)
    try:
        master = con.execute("select type, name, tbl_name, sql from sqlite_master order by type, name").fetchall()
        dump = "\n".join(con.iterdump())
    finally:
        con.close()
    return hashlib.sha1((repr(master) + dump).encode()).hexdigest(), len(master) == 0


def scenarios(tier):
    scs = []
    files_variants = []
    for order in ORDERS:
        n = len(order)
        for fail in range(0, n + 1):
            stmts = [STMTS[k] for k in order]
            if fail:
                stmts = stmts[:fail - 1] + [BAD] + stmts[fail - 1:]
            files_variants.append((stmts, fail))
    files_variants.append((VIEW_FIRST, 2))
    files_variants.append(([STMTS[0], STMTS[1], "DROP VIEW v1;", "DROP TABLE t1;", "CREATE VIEW v9 AS SELECT 2 AS two;"], 0))   # ends with a view and no table
    # a file that opens its own transaction and fails inside it
    files_variants.append((["BEGIN;", STMTS[0], BAD, "COMMIT;"], 3))
    files_variants.append(([STMTS[0], "BEGIN;", STMTS[1], BAD, "COMMIT;"], 4))
    # every statement succeeds but the resulting state cannot be inspected (SQLite accepts a foreign key to a column that does not exist)
    files_variants.append(([STMTS[0], "CREATE TABLE nodes (id integer PRIMARY KEY, p integer REFERENCES nodes (idd));"], 3))
    cmds = ["migrate-validate", "migrate-lint", "migrate-lint-1", "migrate-diff", "schema-apply-sql", "schema-diff-sql", "schema-apply-hcl", "schema-diff-hcl"]
    for cmd in cmds:
        for dev in DEV_STATES:
            for stmts, fail in files_variants:
                if cmd.endswith("-hcl") and (fail or stmts is VIEW_FIRST):
                    continue
                if tier == "quick" and dev in ("two-tables", "absent", "virtual-only") and fail not in (0, 2):
                    continue
                scs.append({"id": len(scs) + 1, "cmd": cmd, "dev": dev, "stmts": stmts, "failat": fail})
    return scs


HCL = 'schema "main" {\n}\ntable "t1" {\n  schema = schema.main\n  column "id" {\n    null = false\n    type = integer\n  }\n  column "v" {\n    null = true\n    type = text\n  }\n  primary_key {\n    columns = [column.id]\n  }\n}\n'


def one(sc):
    ws = cli.WS()
    try:
        dev = ws.dev
        if DEV_STATES[sc["dev"]] is not None:
            cli.sql(dev, DEV_STATES[sc["dev"]] or "SELECT 1;")
        devurl = "sqlite://" + dev
        # the migration directory: two files, the statements split between them
        k = max(1, len(sc["stmts"]) // 2)
        ws.write("1_a.sql", "\n".join(sc["stmts"][:k]) + "\n")
        ws.write("2_b.sql", "\n".join(sc["stmts"][k:]) + "\n")
        ws.hash()
        sqlfile = os.path.join(ws.root, "schema.sql")
        open(sqlfile, "w").write("\n".join(sc["stmts"]) + "\n")
        hclfile = os.path.join(ws.root, "schema.hcl")
        open(hclfile, "w").write(HCL)
        other = os.path.join(ws.root, "other.sql")
        open(other, "w").write(STMTS[0] + "\n")
        before, _ = dev_fingerprint(dev)
        dirbefore = cli.dir_snapshot(ws.dir)
        durl = "file://" + ws.dir
        c = sc["cmd"]
        needs = True
        if c == "migrate-validate":
            args = ["migrate", "validate", "--dir", durl, "--dev-url", devurl]
        elif c == "migrate-lint":
            args = ["migrate", "lint", "--dir", durl, "--dev-url", devurl, "--latest", "2"]
        elif c == "migrate-lint-1":
            # only the last file is linted: the first one is replayed as the base of the window
            args = ["migrate", "lint", "--dir", durl, "--dev-url", devurl, "--latest", "1"]
        elif c == "migrate-diff":
            args = ["migrate", "diff", "next", "--dir", durl, "--dev-url", devurl, "--to", "file://" + hclfile]
        elif c == "schema-apply-sql":
            args = ["schema", "apply", "--url", ws.url(), "--to", "file://" + sqlfile, "--dev-url", devurl, "--auto-approve"]
        elif c == "schema-diff-sql":
            args = ["schema", "diff", "--from", "file://" + other, "--to", "file://" + sqlfile, "--dev-url", devurl]
        elif c == "schema-apply-hcl":
            # HCL-only sources on SQLite: no replay, no normaliser in the community build -> owes non-interference only
            args = ["schema", "apply", "--url", ws.url(), "--to", "file://" + hclfile, "--dev-url", devurl, "--auto-approve"]
            needs = False
        else:
            args = ["schema", "diff", "--from", ws.url(), "--to", "file://" + hclfile, "--dev-url", devurl]
            needs = False
        rc, out, err = ws.atlas(*args)
        after, empty = dev_fingerprint(dev)
        dirafter = cli.dir_snapshot(ws.dir)
        txt = out + err
        failat = sc["failat"]
        if c == "migrate-diff" and not failat and "missing_table" not in txt:
            pass
        return {"id": sc["id"], "cmd": c, "dev": sc["dev"], "dirty": sc["dev"] in ("one-table", "two-tables", "view-only", "virtual-only"), "needs": needs, "failat": failat if needs else 0,
                "ok": rc == 0 or (c.startswith("migrate-lint") and "diagnostic" in txt and "Error:" not in txt and "rror:" not in txt), "notclean": "not clean" in txt or "is not clean" in txt, "same": before == after, "empty": empty or after == "absent",
                "dirsame": dirbefore == dirafter, "diffcmd": c == "migrate-diff", "msg": txt.strip().split("\n")[-1][:200] if rc else "", "rc": rc}
    finally:
        ws.close()


def run(tier):
    v = vf.Verdict("C14", tier, "model_checking")
    vf.build_atlas()
    r = vf.tlc("DevDB", "DevDB.cfg", workers=4, timeout=600)
    if not r.ok:
        raise vf.Infra("DevDB.tla violates its own invariants: %s" % r.violated)
    scs = scenarios(tier)
    with ThreadPoolExecutor(max_workers=16) as ex:
        obs = list(ex.map(one, scs))
    d = vf.scratch("c14")
    try:
        p = os.path.join(d, "t.ndjson")
        open(p, "w").write(vf.ndjson(obs))
        viols, events, _ = vf.monitor_trace("DevDBMonitor", "DevDBMonitor.cfg", p, independent=True)
    finally:
        vf.rm(d)
    per = {}
    for oid, name in viols:
        per.setdefault(oid, []).append(name)
    for oid, names in sorted(per.items()):
        sc, o = scs[oid - 1], obs[oid - 1]
        v.violation({"cmd": sc["cmd"], "dev": sc["dev"], "failat": sc["failat"], "formulas": ",".join(sorted(names)), "statements": sc["stmts"],
                     "view_only_dev": sc["dev"] == "view-only"}, {"violated": sorted(names), "obs": o})
    v.cov = {"states": r.distinct, "transitions": r.generated, "traces_validated_against_impl": len(scs) - len(per), "invocations": len(scs),
             "commands": sorted({s["cmd"] for s in scs}), "dev_states": list(DEV_STATES), "exhaustive": True,
             "explanation": "every command x dev-database state x failing position; dev database fingerprint = sqlite_master + full logical dump"}
    v.samples = [obs[len(obs) // 2]]
    v.assumptions = ["SQLite dev database; HCL-only sources owe non-interference only (no replay / normaliser on SQLite in the community build)"]
    return v.finish()
