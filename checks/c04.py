"""C04 - plans respect dependencies for every foreign-key graph, including cycles.

spec : PlanCatalog.tla (catalogue semantics of CREATE/ALTER/DROP with the engine's acceptance rules), PlanCatalogTrace.tla
bind : C->S. All directed FK graphs with self loops over <= 3 tables x every split created/dropped/kept-and-modified, all graphs over
       4 tables for create-all / drop-all (thorough; quick samples by seed), random graphs over 5..8 tables, for mysql.DefaultPlan and
       postgres.DefaultPlan, and every ordered pair of definitions of one foreign key modified in place (referenced table, ON UPDATE /
       ON DELETE actions; alone or next to an added column); each planned statement is tokenised into catalogue events and TLC consumes the plan: a statement the
       catalogue would reject, a wrong end catalogue, a table created/dropped twice, a planner error or a planner that does not return
       are violations.
"""
from checks import plancat
import vf


def run(tier):
    v = vf.Verdict("C04", tier, "model_checking")
    r = vf.tlc("PlanCatalogMC", "PlanCatalog.mc.cfg", defines={"MaxLen": 6 if tier == "quick" else 7}, workers=8, heap="8g", timeout=1800)
    if not r.ok:
        raise vf.Infra("PlanCatalog.tla violates its own invariants: %s" % r.violated)
    batches = [["-n", "2", "-roles", "all"], ["-n", "3", "-roles", "all"], ["-fkmod"]]
    if tier == "quick":
        batches.append(["-n", "4", "-roles", "createdrop", "-sample", "0.05", "-random", "150"])
    else:
        batches.append(["-n", "4", "-roles", "createdrop", "-random", "1500"])
        batches.append(["-n", "4", "-roles", "all", "-sample", "0.01"])
    total = bad = events = 0
    samples = []
    for args in batches:
        d, trace, cases, info = plancat.record(args)
        try:
            per, ev = plancat.validate(trace)
            events += ev
            byid = {c["id"]: c for c in cases}
            if args == ["-fkmod"]:
                # the up/down half of these scenarios is C17's
                cases = [c for c in cases if c["dir"] == "fkmod-up"]
                per = {cid: names for cid, names in per.items() if byid[cid]["dir"] == "fkmod-up"}
            for cid, names in sorted(per.items())[:300]:
                c = byid[cid]
                case = plancat.shape(c) if c["dir"] != "fkmod-up" else {"dialect": c["dialect"], "dir": c["dir"], "scenario": c["roles"]}
                case["first_violation"] = names[0]
                v.violation(case, {"violated": names, "planner_error": c.get("err"), "statements": c.get("stmts")})
            total += len(cases)
            bad += len(per)
            samples.append({"scenario": plancat.shape(cases[len(cases) // 2]), "statements": cases[len(cases) // 2].get("stmts")})
        finally:
            vf.rm(d)
    v.cov = {"states": r.distinct, "transitions": r.generated, "traces_validated_against_impl": total - bad, "plans": total, "events": events,
             "exhaustive": True, "batches": batches,
             "explanation": "every FK digraph over <=3 tables x every created/dropped/kept split; 4-table create-all/drop-all; random 5..8-table graphs; one foreign key modified in place over 27 definitions (702 ordered pairs); both planners"}
    v.samples = samples[:2]
    v.assumptions = ["the tokeniser of planned SQL (regular expressions over CREATE/ALTER/DROP TABLE and FOREIGN KEY clauses) is faithful",
                     "engine acceptance rules as in PlanCatalog.tla (parent must exist unless self reference; no drop while referenced by another table)"]
    return v.finish()
