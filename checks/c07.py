"""C07 - what is planned is what is executed: plan -> file -> statements round-trips.

spec : Lexer.tla / LexerMC.tla (QuoteSafety: a literal / identifier quoted by the discipline "double the quote, additionally escape
       backslashes when the scanner has BackslashEscapes" is opaque to the scanner for EVERY content <= NQ), PlanFile.tla (Read(Format(p))
       = Cmds(p) for the six formatter structures), PlanFileTrace.tla
bind : S->C  TLC exports the hostile contents of QuoteSafety's quantifier domain; the harness puts each into every position where a user
             value enters Atlas (table / column / index / constraint names, comments, string defaults, enum values, check literals) in a
             schema written as HCL, evaluates it with the dialect, plans with the dialect's planner, writes the plan with each of the six
             formatters (+ indent option, + custom delimiter), reads it back with the matching directory reader and the dialect's
             statement scanner; TLC checks up = planned commands (same count, order, text) and down = reversed reverse statements.
       CLI   third-party-format directories are imported with `migrate import`; the statement sequence must be preserved.
"""
import json
import os
import subprocess
import vf
import cli

IQ = {"mysql": "`", "postgres": '"', "sqlite": "`"}


def features(case, fmt):
    w, dl, kind = case["content"], case["dialect"], case["kind"]
    ident = kind in ("tname", "cname", "iname", "fkname")
    return {"part": "roundtrip", "dialect": dl, "kind": kind, "kind_class": "ident" if ident else "literal", "format": fmt,
            "format_family": "atlas" if fmt.startswith("atlas") else "foreign",
            "has_sq": "'" in w, "has_dq": '"' in w, "has_bs": "\\" in w, "has_nl": "\n" in w,
            "has_sq_or_bs": "'" in w or "\\" in w,
            "has_semicolon_newline": ";\n" in w, "has_bs_before_backtick": "\\`" in w,
            # looks like an already quoted literal ('...' or "...") with a backslash directly before a quote character (also the closing one):
            # whether that quote is escaped depends on the dialect, sqlx.IsQuoted decides it without knowing the dialect
            "quoted_lookalike_backslash_before_quote": len(w) >= 3 and w[0] in "'\"" and w[-1] == w[0] and ("\\" + w[0]) in w[1:],
            "newline_then_comment_marker": "\n--" in w,
            "content": w}


def run(tier):
    v = vf.Verdict("C07", tier, "model_checking")
    nq = 2 if tier == "quick" else 3
    b = vf.build_harness("core", "roundtrip")
    mc = vf.tlc("LexerMC", "LexerMC.cfg", defines={"N": 3, "NQ": 4 if tier == "quick" else 5, "NP": 0}, heap="12g", timeout=3000)
    if not mc.ok:
        raise vf.Infra("Lexer.tla QuoteSafety does not hold on the model (specification bug):\n" + mc.out[-2000:])
    ncontents = vf.tla_prints(mc, "CONTENTS")[0][1]
    pf = vf.tlc("PlanFile", "PlanFile.cfg", heap="4g", timeout=600)
    if not pf.ok:
        raise vf.Infra("PlanFile.tla round-trip property fails on the model")
    r = vf.tlc("LexerContents", "LexerContents.cfg", defines={"NQ": nq, "QQ": 3 if tier == "quick" else 4}, keep=True, timeout=600)
    d = vf.scratch("c07")
    try:
        trace = os.path.join(d, "t.ndjson")
        p = subprocess.run([b, os.path.join(r.dir, "contents.ndjson"), trace, "0"], stdout=subprocess.PIPE, stderr=subprocess.PIPE, text=True,
                           env=dict(os.environ, VERIF_SCRATCH=d), timeout=3000)
        if p.returncode != 0:
            raise vf.Infra("roundtrip failed: " + p.stderr[-2000:])
        info = json.loads(p.stdout)
        viols, events, _ = vf.monitor_trace("PlanFileTrace", "PlanFileTrace.cfg", trace, max_events=20000, independent=True)
        capped = len(viols) >= 600
        full = open(trace + ".full").read().split("\n") if viols else []
        for oid, name in viols:
            o = json.loads(full[oid - 1])
            case = features(o["case"], o["obs"]["format"])
            case["formula"] = name
            v.violation(case, {"formula": name, "err": o["obs"]["err"], "planned": o["obs"].get("planned"), "read": o["obs"].get("read"),
                               "up": o["obs"]["up"], "down": o["obs"]["down"], "wantdown": o["obs"]["wantdown"]})
        if capped:
            # TLC's report is capped per chunk: classify every failing observation the same way (same formula, evaluated by the harness)
            seen = {json.loads(full[oid - 1])["obs"]["id"] for oid, _ in viols}
            for line in full:
                if not line:
                    continue
                o = json.loads(line)
                ob = o["obs"]
                bad = ob["err"] != "" or ob["up"] != list(range(1, ob["n"] + 1)) or (ob["hasdown"] and ob["down"] != ob["wantdown"])
                if bad and ob["id"] not in seen:
                    case = features(o["case"], ob["format"])
                    case["formula"] = "ReadError" if ob["err"] else "StatementsDiffer"
                    v.violation(case, {"err": ob["err"], "up": ob["up"], "down": ob["down"], "wantdown": ob["wantdown"], "note": "beyond TLC's per-chunk report cap"})
    finally:
        vf.rm(d)
        vf.rm(r.dir)
    imp = import_part(v, tier)
    v.cov = {"states": 3 * 2 * ncontents + 813, "transitions": 3 * 2 * ncontents + 813,
             "traces_validated_against_impl": events - len(viols) + imp["ok"],
             "quote_safety_contents_checked_by_tlc": ncontents, "planfile_plans_checked_by_tlc": 813,
             "observations": events, "cases": info["cases"], "cases_by_kind": info["cases_by_kind"], "skipped_by_hcl": info["skipped_by_hcl"], "planner_refusals": info.get("planner_refusals", 0),
             "import_cases": imp["n"], "content_length": nq,
             "explanation": "states = reference evaluations by TLC (QuoteSafety over all contents x 3 quote kinds x 2 option sets; PlanFile round trip over 813 plans); "
                            "observations = (content x position x dialect x formatter) round trips validated by PlanFileTrace.tla"}
    v.samples = [{k: s.get(k) for k in ("format", "n", "up", "down", "wantdown", "planned")} for s in info["samples"][:2]]
    v.assumptions = ["hostile content enters where a user value enters Atlas; raw SQL fragments (check expressions) are written validly for the dialect by the harness",
                     "inputs the HCL layer itself refuses are outside the domain (counted as skipped_by_hcl)"]
    return v.finish()


STMTS = ["CREATE TABLE t1 (id int)", "CREATE TABLE Downtime (id int, countdown int)", "CREATE INDEX i_down ON Downtime (countdown)",
         "CREATE TABLE upper_deck (StatementBegin int, StatementEnd int)", "INSERT INTO t1 VALUES (1)"]


def import_part(v, tier):
    vf.build_atlas()
    n = ok = 0
    up = "".join(s + ";\n" for s in STMTS)
    sources = {
        "golang-migrate": {"1_init.up.sql": up, "1_init.down.sql": "DROP TABLE t1;\n"},
        "flyway": {"V1__init.sql": up},
        "goose": {"1_init.sql": "-- +goose Up\n" + up + "-- +goose Down\nDROP TABLE t1;\n"},
        "dbmate": {"1_init.sql": "-- migrate:up\n" + up + "-- migrate:down\nDROP TABLE t1;\n"},
        "liquibase": {"1_init.sql": "--liquibase formatted sql\n--changeset a:1\n" + up},
    }
    ws = cli.WS()
    try:
        for fmt_, files in sources.items():
            src = os.path.join(ws.root, "src_" + fmt_)
            os.makedirs(src)
            for name, body in files.items():
                open(os.path.join(src, name), "w").write(body)
            dst = os.path.join(ws.root, "imp_" + fmt_)
            rc, out, err = ws.atlas("migrate", "import", "--from", "file://" + src + "?format=" + fmt_, "--to", "file://" + dst)
            n += 1
            if rc != 0:
                v.violation({"part": "import", "format": fmt_}, {"rc": rc, "out": (out + err)[-500:]})
                continue
            got = []
            for name in sorted(os.listdir(dst)):
                if name.endswith(".sql"):
                    for line in open(os.path.join(dst, name)):
                        line = line.strip()
                        if line and not line.startswith("--"):
                            got.append(line.rstrip(";"))
            if got == STMTS:
                ok += 1
            else:
                v.violation({"part": "import", "format": fmt_, "lost_line_contains_down": any("own" in s for s in STMTS if s not in got)},
                            {"want": STMTS, "got": got})
    finally:
        ws.close()
    return {"n": n, "ok": ok}
