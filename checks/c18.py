"""C18 - lint flags every destructive migration and no purely additive one.

spec : LintModel.tla (directory histories over a small catalogue; per file the reference classes Destructive / PureAdditive / TempOnly and
       the causing statements, with life-span bookkeeping "existed before this file"), LintMonitor.tla
bind : S->C. Directory histories from TLC simulation (seeded) are rendered as SQL - DROP TABLE, ALTER TABLE .. DROP COLUMN, or a table rebuild
       that omits the column; generated columns VIRTUAL - and, for part of them, produced by `atlas migrate diff` itself from the model's
       catalogue after every file; the real CLI runs `migrate lint --dev-url sqlite://.. --latest N --format '{{ json . }}'` for every window N;
       TLC checks per file in the window: destructive => a DS102/DS103 diagnostic on a causing statement and a failing exit status;
       additive or temp-only => no destructive diagnostic.
"""
import json
import os
from concurrent.futures import ThreadPoolExecutor

import cli
import vf

COLDEF = {"b": "b text", "c": "c text", "v": "v text AS (id || 'x') VIRTUAL"}


def create_sql(t, cols, name=None):
    defs = ["id integer NOT NULL"] + [COLDEF[c] for c in sorted(cols)]
    return "CREATE TABLE %s (%s);" % (name or t, ", ".join(defs))


def render(stmt):
    """-> list of SQL statements for one model statement"""
    k, t, c = stmt["k"], stmt["t"], stmt["c"]
    if k == "create":
        return [create_sql(t, stmt["cols"])]
    if k == "droptable":
        return ["DROP TABLE %s;" % t]
    if k == "addcol":
        return ["ALTER TABLE %s ADD COLUMN %s;" % (t, COLDEF[c])]
    if k == "dropcol":
        if stmt["sp"] == "alter":
            return ["ALTER TABLE %s DROP COLUMN %s;" % (t, c)]
        keep = ["id"] + [x for x in sorted(stmt["cols"]) if x != "v"]
        # the copy statement of a hand-written rebuild, in the spellings SQLite accepts
        ins = ["INSERT INTO", "insert into", "INSERT OR REPLACE INTO", "REPLACE INTO"][(len(stmt["cols"]) + ord(t[0]) + ord((c or "x")[0])) % 4]
        return ["PRAGMA foreign_keys = off;", create_sql(t, stmt["cols"], "new_" + t), "%s new_%s (%s) SELECT %s FROM %s;" % (ins, t, ", ".join(keep), ", ".join(keep), t),
                "DROP TABLE %s;" % t, "ALTER TABLE new_%s RENAME TO %s;" % (t, t), "PRAGMA foreign_keys = on;"]
    raise ValueError(k)


def lifecycles(stmts):
    """per object touched by the file: its add/drop events in order; returns the sorted set of patterns of objects with 3+ events
    (e.g. "table:drop,add,drop"): Atlas keeps one span per object and file, which cannot describe these."""
    ev = {}
    for s in stmts:
        k, t, c = s["k"], s["t"], s["c"]
        if k == "create":
            ev.setdefault(("table", t), []).append("add")
            for col in s["cols"]:
                ev.setdefault(("column", t, col), []).append("add")
        elif k == "droptable":
            ev.setdefault(("table", t), []).append("drop")
        elif k == "addcol":
            ev.setdefault(("column", t, c), []).append("add")
        elif k == "dropcol":
            ev.setdefault(("column", t, c), []).append("drop")
    return sorted({"%s:%s" % (o[0], ",".join(e)) for o, e in ev.items() if len(e) >= 3})


def evolve(cat, stmts):
    cat = {t: set(c) for t, c in cat.items()}
    for s in stmts:
        k, t, c = s["k"], s["t"], s["c"]
        if k == "create":
            cat[t] = set(s["cols"])
        elif k == "droptable":
            del cat[t]
        elif k == "addcol":
            cat[t].add(c)
        elif k == "dropcol":
            cat[t].discard(c)
    return cat


def split_sql(text):
    """statements of a file written by `migrate diff` (comment lines belong to the statement that follows) -> offsets"""
    offs, pos, start = [], 0, None
    for line in text.splitlines(True):
        if start is None and line.strip():
            start = pos
        if line.rstrip().endswith(";"):
            offs.append(start)
            start = None
        pos += len(line)
    return offs


def one_diff(job):
    """the same evolution, every file planned by `atlas migrate diff` from the model's catalogue after the file (net effect of the file)"""
    hid, hist = job
    ws = cli.WS()
    out = []
    try:
        cat, metas = {}, []
        for fi, f in enumerate(hist, 1):
            nxt = evolve(cat, f["stmts"])
            desired = os.path.join(ws.root, "desired.sql")
            open(desired, "w").write("\n".join(create_sql(t, nxt[t]) for t in sorted(nxt)) + "\n")
            before = set(os.listdir(ws.dir))
            rc, o, e = ws.atlas("migrate", "diff", "f", "--dir", "file://" + ws.dir, "--to", "file://" + desired, "--dev-url", "sqlite://dev?mode=memory")
            if rc != 0:
                raise vf.Infra("migrate diff failed: " + (o + e)[-400:])
            new = sorted(set(os.listdir(ws.dir)) - before - {"atlas.sum"})
            if new:
                os.rename(os.path.join(ws.dir, new[0]), os.path.join(ws.dir, "%d_f.sql" % fi))
                ws.hash()
                text = open(os.path.join(ws.dir, "%d_f.sql" % fi)).read()
                lost_t = [t for t in cat if t not in nxt]
                lost_c = [(t, c) for t in cat if t in nxt for c in cat[t] - nxt[t]]
                destructive = bool(lost_t or [x for x in lost_c if x[1] != "v"])
                additive = not lost_t and not lost_c
                metas.append({"fi": fi, "text": text, "destructive": destructive, "additive": additive, "offs": split_sql(text)})
            cat = nxt
        names = [m["fi"] for m in metas]
        for n in range(1, len(metas) + 1):
            rc, o, e = ws.atlas("migrate", "lint", "--dir", "file://" + ws.dir, "--dev-url", "sqlite://dev?mode=memory", "--latest", str(n), "--format", "{{ json . }}")
            try:
                rep = json.loads(o)
            except ValueError:
                rep = None
            byname = {f["Name"]: f for f in (rep or {}).get("Files", [])} if rep else {}
            for m in metas[len(metas) - n:]:
                fr = byname.get("%d_f.sql" % m["fi"])
                diags, err = [], ""
                if rep is None:
                    err = "lint output is not JSON: " + (o + e)[-300:]
                elif fr is None:
                    err = "file missing from the lint report"
                else:
                    if fr.get("Error") and "destructive" not in fr["Error"]:
                        err = fr["Error"]
                    for r_ in fr.get("Reports") or []:
                        for d in r_.get("Diagnostics") or []:
                            if d.get("Code") in ("DS102", "DS103"):
                                diags.append(max([i for i, p in enumerate(m["offs"], 1) if p <= d["Pos"]] or [1]))
                out.append({"hid": hid, "latest": n, "file": m["fi"], "destructive": m["destructive"], "additive": m["additive"], "temponly": False,
                            "groups": [list(range(1, len(m["offs"]) + 1))] if m["destructive"] else [], "diags": sorted(set(diags)), "failed": rc != 0, "err": err,
                            "lifecycles": [], "text": m["text"], "spellings": ["migrate-diff"]})
        return out
    finally:
        ws.close()


def one(job):
    hid, hist = job
    ws = cli.WS()
    out = []
    try:
        texts, maps = [], []
        for fi, f in enumerate(hist, 1):
            sqls, groups, starts = [], {}, []
            for si, s in enumerate(f["stmts"], 1):
                r = render(s)
                first = len(sqls) + 1
                sqls += r
                if s["k"] == "dropcol" and s["sp"] == "rebuild":
                    groups[si] = list(range(first + 1, first + 5))       # CREATE new_t .. RENAME
                else:
                    groups[si] = [first]
            text = "\n".join(sqls) + "\n"
            pos, offs = 0, []
            for q in sqls:
                offs.append(pos)
                pos += len(q) + 1
            ws.write("%d_f.sql" % fi, text)
            texts.append(text)
            maps.append((groups, offs))
        ws.hash()
        for n in range(1, len(hist) + 1):
            rc, o, e = ws.atlas("migrate", "lint", "--dir", "file://" + ws.dir, "--dev-url", "sqlite://dev?mode=memory", "--latest", str(n), "--format", "{{ json . }}")
            try:
                rep = json.loads(o)
            except ValueError:
                rep = None
            window = range(len(hist) - n + 1, len(hist) + 1)
            byname = {f["Name"]: f for f in (rep or {}).get("Files", [])} if rep else {}
            for fi in window:
                f = hist[fi - 1]
                groups, offs = maps[fi - 1]
                fr = byname.get("%d_f.sql" % fi)
                diags = []
                err = ""
                if rep is None:
                    err = "lint output is not JSON: " + (o + e)[-300:]
                elif fr is None:
                    err = "file missing from the lint report"
                else:
                    if fr.get("Error") and "destructive" not in fr["Error"]:
                        err = fr["Error"]
                    for r_ in fr.get("Reports") or []:
                        for d in r_.get("Diagnostics") or []:
                            if d.get("Code") in ("DS102", "DS103"):
                                # statement index by position
                                idx = max(i for i, p in enumerate(offs, 1) if p <= d["Pos"])
                                diags.append(idx)
                anyd = any(hist[x - 1]["destructive"] for x in window)
                out.append({"hid": hid, "latest": n, "file": fi, "destructive": f["destructive"], "additive": f["additive"], "temponly": f["temponly"],
                            "groups": [groups[c] for c in f["causes"]], "diags": sorted(set(diags)), "failed": rc != 0, "err": err, "any_destructive_in_window": anyd,
                            "lifecycles": lifecycles(f["stmts"]),
                            "text": texts[fi - 1], "spellings": sorted({s["sp"] or s["k"] for s in f["stmts"]})})
        return out
    finally:
        ws.close()


def run(tier):
    v = vf.Verdict("C18", tier, "exploration")
    vf.build_atlas()
    mc = vf.tlc("LintModelMC", "LintModel.mc.cfg", defines={"MaxFiles": 2 if tier == "quick" else 3}, workers=8, heap="12g", timeout=3000)
    if not mc.ok:
        raise vf.Infra("LintModel.tla: classes inconsistent (specification bug): %s" % mc.violated)
    num = 120 if tier == "quick" else 1500
    r = vf.tlc("LintModelMC", "LintModel.sim.cfg", defines={"Depth": 9}, workers=1, heap="4g", timeout=1800, simulate="num=%d" % num, depth=14, tlc_seed=vf.seed())
    hists = vf.vtraces(r)
    if len(hists) < 20:
        raise vf.Infra("simulation produced only %d histories" % len(hists))
    with ThreadPoolExecutor(max_workers=16) as ex:
        res = list(ex.map(one, list(enumerate(hists, 1))))
        res += list(ex.map(one_diff, list(enumerate(hists, 1))[::2 if tier == "quick" else 1]))
    obs = [o for lst in res for o in lst]
    for i, o in enumerate(obs, 1):
        o["id"] = i
    d = vf.scratch("c18")
    try:
        p = os.path.join(d, "t.ndjson")
        open(p, "w").write(vf.ndjson([{k: o[k] for k in ("id", "destructive", "additive", "temponly", "groups", "diags", "failed", "err")} for o in obs]))
        viols, events, _ = vf.monitor_trace("LintMonitor", "LintMonitor.cfg", p, independent=True)
    finally:
        vf.rm(d)
    per = {}
    for oid, name in viols:
        per.setdefault(oid, []).append(name)
    for oid, names in sorted(per.items()):
        o = obs[oid - 1]
        v.violation({"formulas": ",".join(sorted(names)), "spellings": o["spellings"], "object_added_dropped_added_in_file": any(x.endswith(":add,drop,add") for x in o["lifecycles"]),
                     "object_dropped_added_dropped_in_file": any(x.endswith(":drop,add,drop") for x in o["lifecycles"]), "lifecycles": ";".join(o["lifecycles"]), "latest": o["latest"], "destructive": o["destructive"], "additive": o["additive"], "temponly": o["temponly"]},
                    {"violated": sorted(names), "file_text": o["text"], "diagnostics_at": o["diags"], "causing_groups": o["groups"], "err": o["err"], "history": hists[o["hid"] - 1]})
    distinct = len({o["text"] + "|" + str(o["latest"]) for o in obs})
    v.cov = {"evaluations": len(obs), "distinct_nontrivial": distinct, "rule": "one evaluation = one (directory history, window N, file in the window) analysed by the real CLI; distinct by file text and window; "
             "non-trivial = the file belongs to a classified directory (destructive / additive / temp-only / other)", "histories": len(hists),
             "classes": {"destructive": sum(o["destructive"] for o in obs), "additive": sum(o["additive"] for o in obs), "temponly": sum(o["temponly"] for o in obs)},
             "planned_by_migrate_diff": {"files": sum(1 for o in obs if o["spellings"] == ["migrate-diff"]), "destructive": sum(1 for o in obs if o["spellings"] == ["migrate-diff"] and o["destructive"]),
                                         "with_rebuild": sum(1 for o in obs if o["spellings"] == ["migrate-diff"] and "INSERT INTO" in o["text"])},
             "model_states": mc.distinct}
    v.samples = [{k: obs[len(obs) // 2][k] for k in ("text", "latest", "destructive", "diags", "groups", "failed")}]
    v.assumptions = ["SQLite dev database; for a rebuild every statement of the rebuild group counts as the causing statement", "files that are neither destructive nor additive / temp-only are unconstrained"]
    return v.finish()
