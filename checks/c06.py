"""C06 - directory integrity: any tampering is detected, an untouched directory validates.

spec : DirSum.tla (files, parsed sum file, writers, tamper actions, reference outcome of Validate), DirSumMC.tla, DirSumTrace.tla
bind : S->C  every behaviour of the bounded model (depth 3 quick / 4 thorough) replayed on a real LocalDir; after each step
             migrate.Validate must give the outcome class the model prescribes (writers through Planner.WritePlan / WriteSumFile).
       C->S  single-edit byte neighbourhood (every byte of every file and of atlas.sum x flip/delete/insert, plus one-byte moves in
             atlas.sum, file add/remove/rename) of small concrete directories; the harness abstracts each result with its own parsers
             and TLC evaluates the reference outcome on the abstraction (DirSumTrace.tla).
       CLI   `migrate hash|new|diff|import` leave a directory that `migrate validate` accepts; tampered ones are refused by validate/apply.
"""
import json
import os
import vf
import cli


def run(tier):
    v = vf.Verdict("C06", tier, "model_checking")
    depth_mc, depth_gen, nfiles = (5, 3, 3) if tier == "quick" else (6, 4, 4)
    r = vf.tlc("DirSumMC", "DirSum.mc.cfg", defines={"Depth": depth_mc}, workers=8, heap="8g", timeout=1800)
    if not r.ok:
        raise vf.Infra("DirSum.tla violates its own properties: %s\n%s" % (r.violated, r.error_trace[:3000]))
    b = vf.build_harness("core", "dirsum")
    g = vf.tlc("DirSumMC", "DirSum.gen.cfg", defines={"Depth": depth_gen}, workers=1, heap="12g", timeout=1800)
    if not g.ok:
        raise vf.Infra("DirSum generation failed: " + g.out[-2000:])
    beh = [t for t in vf.vtraces(g) if not any(s["a"] == "new" for s in t)]
    d = vf.scratch("c06")
    try:
        env = dict(os.environ, VERIF_SCRATCH=d)
        with open(os.path.join(d, "b.ndjson"), "w") as f:
            f.write(vf.ndjson(beh))
        res = vf.run_json([b, "replay", os.path.join(d, "b.ndjson")], env=env, timeout=3000)
        for m in res["mismatches"]:
            steps = m["behaviour"][:m["at"] + 1]
            case = {"part": "replay", "actions": [s["a"] for s in steps], "last_action": steps[-1]["a"], "want": m["want"]}
            v.violation(case, {"steps": steps, "want": m["want"], "got": m["got"]})
        nb = vf.run_json([b, "bytes", os.path.join(d, "t.ndjson"), str(nfiles)], env=env, timeout=3000)
        viols, events, _ = vf.monitor_trace("DirSumTrace", "DirSumTrace.cfg", os.path.join(d, "t.ndjson"), max_events=40000, independent=True)
        if viols:
            lines = open(os.path.join(d, "t.ndjson")).read().split("\n")
        for lno, cid, want, got in viols[:200]:
            ev = json.loads(lines[lno - 1])
            op = (ev or {}).get("op", "?")
            case = {"part": "bytes", "op_kind": op.split(" ")[0], "target": op.split(" in ")[-1], "want": want, "got_ok": got == "ok"}
            v.violation(case, {"op": op, "want": want, "got": got, "event": ev})
        c = cli_part(v, tier)
        v.cov = {"states": r.distinct, "transitions": r.generated,
                 "traces_validated_against_impl": res["behaviours"] - len(res["mismatches"]) + nb["events"] - len(viols) + c["ok"],
                 "behaviours_replayed": res["behaviours"], "steps_replayed": res["steps"], "replay_outcomes": res["outcomes"], "replay_actions": res["actions"],
                 "byte_edits": nb["events"], "byte_edit_outcomes": nb["outcomes"], "concrete_directories": nb["directories"],
                 "cli_cases": c["n"], "exhaustive": True, "model_depth": depth_mc, "replay_depth": depth_gen,
                 "explanation": "all model behaviours of the given depth replayed on LocalDir; full single-edit byte neighbourhood of directories up to %d files" % nfiles}
        v.samples = [res["samples"][0] if res["samples"] else None, (nb.get("samples") or [None])[0]]
        v.assumptions = ["SHA-256 injective", "contents of `atlas:sum ignore` files and a trailing ignored file are the documented blind spot (stuttering)",
                         "parse-neutral bytes of atlas.sum (blank padding, optional h1: on line 1) are stuttering", "the harness's own parsers of atlas.sum / directives define the abstraction"]
    finally:
        vf.rm(d)
    return v.finish()


def cli_part(v, tier):
    """Every CLI writer leaves a directory that validates; tampering afterwards is refused by validate and apply."""
    vf.build_atlas()
    n = ok = 0
    ws = cli.WS()
    try:
        durl = "file://" + ws.dir

        def validate():
            return ws.atlas("migrate", "validate", "--dir", durl)[0]

        def expect_valid(what):
            nonlocal n, ok
            n += 1
            rc, out, err = ws.atlas("migrate", "validate", "--dir", durl)
            if rc == 0:
                ok += 1
            else:
                v.violation({"part": "cli-writer", "writer": what}, {"validate_rc": rc, "out": (out + err)[-400:]})

        def expect_refused(what):
            nonlocal n, ok
            n += 1
            rc, out, err = ws.atlas("migrate", "validate", "--dir", durl)
            rc2, out2, err2 = ws.atlas("migrate", "apply", "--url", ws.url(), "--dir", durl, "--dry-run")
            if rc != 0 and rc2 != 0 and "checksum" in (out + err + out2 + err2).lower():
                ok += 1
            else:
                v.violation({"part": "cli-tamper", "tamper": what}, {"validate_rc": rc, "apply_rc": rc2, "out": (out + err + out2 + err2)[-400:]})

        rc, out, err = ws.atlas("migrate", "new", "first", "--dir", durl)
        expect_valid("migrate new (empty dir)")
        f1 = [x for x in os.listdir(ws.dir) if x.endswith(".sql")][0]
        open(os.path.join(ws.dir, f1), "w").write("CREATE TABLE a (id int);\n")
        expect_refused("edit after new")
        ws.atlas("migrate", "hash", "--dir", durl)
        expect_valid("migrate hash")
        open(os.path.join(ws.dir, "hcl.hcl"), "w").write('schema "main" {}\ntable "a" {\n schema = schema.main\n column "id" { type = int }\n}\ntable "b" {\n schema = schema.main\n column "id" { type = int }\n}\n')
        rc, out, err = ws.atlas("migrate", "diff", "second", "--dir", durl, "--to", "file://" + os.path.join(ws.dir, "hcl.hcl"), "--dev-url", "sqlite://dev?mode=memory")
        if rc != 0:
            raise vf.Infra("migrate diff failed: " + out + err)
        expect_valid("migrate diff")
        files = sorted(x for x in os.listdir(ws.dir) if x.endswith(".sql"))
        if len(files) != 2:
            raise vf.Infra("migrate diff wrote no file: %s" % files)
        ws.atlas("migrate", "new", "third", "--dir", durl)
        expect_valid("migrate new")
        # tamper: add a file in the middle, remove, rename
        mid = os.path.join(ws.dir, files[0][:-4] + "5_mid.sql")
        open(mid, "w").write("CREATE TABLE m (id int);\n")
        expect_refused("file added in the middle")
        os.remove(mid)
        expect_valid("restore")
        os.rename(os.path.join(ws.dir, files[1]), os.path.join(ws.dir, files[1][:-4] + "x.sql"))
        expect_refused("file renamed")
        os.rename(os.path.join(ws.dir, files[1][:-4] + "x.sql"), os.path.join(ws.dir, files[1]))
        expect_valid("restore 2")
        # `migrate import` from every third-party format (flyway incl. repeatable / baseline / undo files) leaves a valid directory
        sources = {
            "golang-migrate": {"1_init.up.sql": "CREATE TABLE t1 (id int);\n", "1_init.down.sql": "DROP TABLE t1;\n", "2_more.up.sql": "CREATE TABLE t2 (id int);\n"},
            "flyway": {"V1__init.sql": "CREATE TABLE t1 (id int);\n", "V2__more.sql": "CREATE TABLE t2 (id int);\n", "V3__third.sql": "CREATE TABLE t3 (id int);\n",
                       "R__views.sql": "CREATE VIEW v1 AS SELECT id FROM t1;\n", "R__a_first.sql": "CREATE VIEW v0 AS SELECT id FROM t2;\n", "U2__more.sql": "DROP TABLE t2;\n"},
            "flyway-baseline": {"B2__base.sql": "CREATE TABLE t1 (id int);\nCREATE TABLE t2 (id int);\n", "V1__init.sql": "CREATE TABLE t1 (id int);\n", "V3__third.sql": "CREATE TABLE t3 (id int);\n", "R__z.sql": "CREATE VIEW v1 AS SELECT id FROM t1;\n"},
            "goose": {"1_init.sql": "-- +goose Up\nCREATE TABLE t1 (id int);\n-- +goose Down\nDROP TABLE t1;\n", "2_more.sql": "-- +goose Up\nCREATE TABLE t2 (id int);\n"},
            "dbmate": {"1_init.sql": "-- migrate:up\nCREATE TABLE t1 (id int);\n-- migrate:down\nDROP TABLE t1;\n", "2_more.sql": "-- migrate:up\nCREATE TABLE t2 (id int);\n-- migrate:down\nDROP TABLE t2;\n"},
            "liquibase": {"1_init.sql": "--liquibase formatted sql\n--changeset a:1\nCREATE TABLE t1 (id int);\n--rollback DROP TABLE t1;\n", "2_more.sql": "--liquibase formatted sql\n--changeset a:2\nCREATE TABLE t2 (id int);\n"},
        }
        for fmt_, files in sources.items():
            src = os.path.join(ws.root, "src_" + fmt_)
            os.makedirs(src)
            for name, body in files.items():
                open(os.path.join(src, name), "w").write(body)
            dst = os.path.join(ws.root, "imp_" + fmt_)
            rc, out, err = ws.atlas("migrate", "import", "--from", "file://" + src + "?format=" + fmt_.replace("-baseline", ""), "--to", "file://" + dst)
            if rc != 0:
                raise vf.Infra("migrate import (%s) failed: %s" % (fmt_, out + err))
            n += 1
            rc, out, err = ws.atlas("migrate", "validate", "--dir", "file://" + dst)
            if rc == 0:
                ok += 1
            else:
                v.violation({"part": "cli-writer", "writer": "migrate import", "format": fmt_}, {"validate_rc": rc, "out": (out + err)[-400:], "files": sorted(os.listdir(dst))})
    finally:
        ws.close()
    return {"n": n, "ok": ok}
