"""C03 - schema exports are faithful: inspected HCL and SQL recreate the same database.

spec : SqliteModel.tla (the catalogue) + ExportTrace.tla: an export is an observation step - the exported document, evaluated (HCL) or
       executed (SQL) on an empty engine, yields the same catalogue; diff between the database and its evaluated HCL is empty both ways;
       two inspections are byte-identical.
bind : S->C. Every distinct state of the C01 corpus (seeds and all their single-edit neighbours) is created on a real SQLite file by the
       harness's DDL renderer in two spellings (plain; unique indexes as inline UNIQUE constraints), inspected by Atlas, exported as HCL
       (MarshalHCL) and SQL (the plan that creates the inspected realm = what `{{ sql . }}` prints); HCL is evaluated and diffed both ways;
       both exports are re-created on fresh engines and projected with pragmas only; a sample goes through the real CLI (`schema inspect`,
       `schema diff`, `schema apply`, executing the `{{ sql . }}` script). TLC evaluates the formulas on every observation.
"""
import json
import os
import subprocess
from checks import engine
import vf

def run(tier):
    v = vf.Verdict("C03", tier, "exploration")
    vf.build_atlas()
    b = vf.build_harness("cli", "engine")
    d = vf.scratch("c03")
    try:
        pairs, n = engine.export_pairs(tier, d)
        out = os.path.join(d, "o.ndjson")
        env = dict(os.environ, VERIF_SCRATCH=d, VERIF_ATLAS=os.path.join(vf.BUILD, "atlas"), VERIF_CLI_EVERY="60" if tier == "quick" else "6",
                   VERIF_EXPORT_SAMPLE="2" if tier == "quick" else "1")
        p = subprocess.run([b, pairs, out, "16", "export"], stdout=subprocess.PIPE, stderr=subprocess.PIPE, text=True, env=env, timeout=3 * 3600)
        if p.returncode != 0:
            raise vf.Infra("engine export failed: " + p.stderr[-2000:])
        info = json.loads(p.stdout)
        viols, events, _ = vf.monitor_trace("ExportTrace", "ExportTrace.cfg", out, max_events=300, independent=True)
        full = [json.loads(x) for x in open(out + ".full").read().split("\n") if x]
    finally:
        vf.rm(d)
    bad = set()
    for i, name in viols:
        o = full[i - 1]
        bad.add(i)
        tgt = o["from_sql"] if name == "SQLDoesNotRecreate" else o["from_hcl"]
        df = engine.diffstate(o["orig"], tgt) if name.endswith("Recreate") else []
        v.violation({"part": "export", "formula": name, "variant": o["variant"], "has_inline_unique": o["has_inline_unique"], "differing_fields": ",".join(sorted({x[1] for x in df}))},
                    {"err": o["err"], "hcl": o.get("hcl"), "sql": o.get("sql"), "changes": o.get("changes"), "diff": df, "state": o["state"]})
    ncli = sum(1 for o in full if o["variant"].endswith("+cli"))
    if ncli == 0:
        raise vf.Infra("no state went through the CLI")
    v.cov = {"evaluations": info["states"], "distinct_nontrivial": info["states"] - info["skipped"],
             "rule": "one evaluation = one (catalogue state, DDL spelling) created on a real SQLite file, exported and re-created; distinct by state and spelling; non-trivial = start state accepted by the engine and re-projected equal to the model state",
             "inline_unique_spellings": info["inline_unique_variants"], "through_cli": ncli, "skipped": info["skipped"],
             "spellings": {k: sum(1 for o in full if o["variant"].split("+")[0] == k) for k in ("plain", "inline", "exprindex", "exprindexdesc", "multiline", "lowerwhere", "customtype")} | {"dflt": sum(1 for o in full if o["variant"].startswith("dflt:"))}}
    v.samples = [{"variant": o["variant"], "hcl": o.get("hcl", "")[:600], "sql": o.get("sql")} for o in full if o["variant"].endswith("+cli")][:1]
    v.assumptions = ["an inline UNIQUE constraint and a named unique index over the same columns are the same catalogue object", "SQLite only (no MySQL / PostgreSQL engine in the sandbox)"]
    return v.finish()
