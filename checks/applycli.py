"""Shared by C13 / C10 (and the CLI parts of C11 / C12): scenarios of `atlas migrate apply` on SQLite files.

A scenario is a configuration of ApplyTx.tla: [mode, dir, nst, fail, count, dry] plus, for C10, a crash point.
Every CLI invocation is bracketed by events; the database file is read by an independent client afterwards.
"""
import json
import os
import re
from concurrent.futures import ThreadPoolExecutor

import cli
import vf


def fname(f):
    return "%03d_f.sql" % f


def stmt(f, i, bad=False):
    return "INSERT INTO %s VALUES (%d, %d);" % ("missing_table" if bad else "j", f, i)


def write_dir(ws, cfg, fixed=False, extra=False):
    """extra: the repaired file also gets one more statement at its end (the repair changes the length of the file)"""
    for f, n in enumerate(cfg["nst"], 1):
        lines = []
        d = cfg["dir"][f - 1]
        if d:
            lines.append("-- atlas:txmode %s\n" % d)
        if fixed and extra and cfg["fail"][0] == f:
            n += 1
        for i in range(1, n + 1):
            bad = (not fixed) and cfg["fail"] == [f, i]
            lines.append(stmt(f, i, bad))
        ws.write(fname(f), "\n".join(lines) + "\n")
    ws.hash()


def classify(rc, out, err):
    t = out + err
    if rc == 0:
        return "ok"
    if "no such table: missing_table" in t:
        return "stmt-failed"
    if "database is locked" in t or "database table is locked" in t:
        return "locked"
    if "cannot set txmode directive" in t:
        return "directive-conflict"
    if "unexpected active transaction" in t:
        return "active-tx"
    if "history changed" in t:
        return "history-changed"
    if "panic:" in t or "goroutine " in t:
        return "panic"
    if rc < 0:
        return "signal%d" % -rc
    return "other"


def disk_event(ws, cfg, cid):
    d = cli.read_disk(ws.db)
    nf = len(cfg["nst"])
    revs = []
    for f in range(1, nf + 1):
        r = d["revs"].get("%03d" % f)
        revs.append({"applied": r["applied"], "total": r["total"], "err": r["err"], "exists": True} if r
                    else {"applied": 0, "total": 0, "err": False, "exists": False})
    extra = [v for v in d["revs"] if not re.fullmatch(r"\d{3}", v) or int(v) > nf or int(v) < 1]
    return {"ev": "disk", "c": cid, "journal": d["journal"], "revs": revs, "extra_revs": extra, "dump": digest(ws.db)}


def digest(path):
    import hashlib
    d = cli.dump(path)
    return hashlib.sha1((d or "").encode()).hexdigest()


def merge_hooks(evs, cid):
    """hook lines -> conformance events (exec / writerev merged from their before/after pairs)."""
    out = []
    pend = None
    for e in evs:
        p = e["point"]
        if p in ("before_exec", "before_writerev"):
            pend = e
        elif p in ("after_exec", "exec_failed"):
            out.append({"ev": "hook", "c": cid, "k": "exec", "f": int(e["v"]), "i": e["i"], "ok": p == "after_exec"})
            pend = None
        elif p in ("after_writerev", "writerev_failed"):
            b = pend or {}
            out.append({"ev": "hook", "c": cid, "k": "writerev", "f": int(e["v"]), "applied": b.get("applied", -1), "total": b.get("total", -1),
                        "err": b.get("err", False), "ok": p == "after_writerev"})
            pend = None
        elif p == "driver_for":
            out.append({"ev": "hook", "c": cid, "k": "driver", "f": int(e["v"]), "mode": e["mode"], "intx": e["intx"]})
        elif p in ("after_commit", "after_rollback"):
            out.append({"ev": "hook", "c": cid, "k": p[6:]})
        elif p == "pending":
            out.append({"ev": "hook", "c": cid, "k": "pending", "n": e["n"], "err": e["err"]})
        elif p == "apply_end":
            out.append({"ev": "hook", "c": cid, "k": "end", "err": e["err"]})
    return out, pend


def inflight(evs):
    """the statement whose effect may be in the database without being recorded, at the moment the process died"""
    cur = (0, 0)
    for e in evs:
        if e["point"] == "before_exec":
            cur = (int(e["v"]), e["i"])
        elif e["point"] == "after_writerev" and cur != (0, 0) and int(e["v"]) == cur[0] and e.get("applied", -1) >= cur[1]:
            cur = (0, 0)
        elif e["point"] == "exec_failed":
            cur = (0, 0)
    return cur


def apply_args(ws, cfg, dry=False):
    a = ["migrate", "apply"]
    if cfg["count"]:
        a.append(str(cfg["count"]))
    a += ["--url", ws.url(), "--dir", "file://" + ws.dir, "--tx-mode", cfg["mode"], "--lock-timeout", "1ms"]
    if not cfg.get("baseline"):
        a.append("--allow-dirty")
    if dry:
        a.append("--dry-run")
    if cfg.get("baseline"):
        a += ["--baseline", "%03d" % cfg["baseline"]]
    return a


def run_scenario(sc):
    """sc: {id, cfg, crash: [point, n] | None, crash2: ..., dry_first: bool}. Returns (events, info)."""
    cid, cfg = sc["id"], sc["cfg"]
    ws = cli.WS()
    info = {"id": cid, "cmds": [], "killed": 0}
    try:
        cli.sql(ws.db, "CREATE TABLE j (v INTEGER, i INTEGER);")
        write_dir(ws, cfg)
        ev = [{"ev": "reset", "c": cid, "dump": digest(ws.db),
               "cfg": {"mode": cfg["mode"], "dir": cfg["dir"], "nst": cfg["nst"], "fail": cfg["fail"],
                       "count": cfg["count"], "dry": False, "baseline": cfg.get("baseline", 0)}}]
        fixed = False

        def command(dry=False, crash=None):
            env = {}
            if crash:
                env["VERIF_CRASH_AT"] = "%s:%d" % (crash[0], crash[1])
            ev.append({"ev": "cmd", "c": cid, "dry": dry})
            rc, out, err = ws.atlas(*apply_args(ws, cfg, dry), env=env)
            hooks = ws.events()
            merged, _ = merge_hooks(hooks, cid)
            ev.extend(merged)
            if cli.died_by_sigkill(rc):
                fl = inflight(hooks)
                ev.append({"ev": "crash", "c": cid, "at": "%s:%d" % tuple(crash), "f": fl[0], "i": fl[1]})
                info["killed"] += 1
                cls = "crash"
            else:
                cls = classify(rc, out, err)
                if cls == "other" or cls.startswith("signal"):
                    info["unexpected"] = (rc, (out + err)[-500:])
                ev.append({"ev": "exit", "c": cid, "cls": cls, "rc": rc, "msg": (err.strip().split("\n") or [""])[-1][:200] if rc else ""})
            ev.append(disk_event(ws, cfg, cid))
            info["cmds"].append(cls)
            return cls

        dry_at = sc.get("dry_at", [])
        ncmd = [0]
        if 0 in dry_at:
            command(dry=True)
        for cr in sc.get("crashes", []):
            cls = command(crash=cr)
            if cls != "crash":
                info["crash_not_reached"] = True
                break
        nf = len(cfg["nst"])
        for _ in range(nf + 3):
            cls = command()
            ncmd[0] += 1
            if ncmd[0] in dry_at:
                command(dry=True)
            if cls == "stmt-failed" and not fixed:
                extra = bool(sc.get("fix_extra"))
                write_dir(ws, cfg, fixed=True, extra=extra)
                fixed = True
                nst = [n + 1 if (extra and cfg["fail"][0] == f) else n for f, n in enumerate(cfg["nst"], 1)]
                ev.append({"ev": "fix", "c": cid, "nst": nst})
                continue
            if cls != "ok":
                break
            d = ev[-1]
            if all(r["exists"] and r["applied"] == r["total"] for r in d["revs"]):
                break
        return ev, info
    finally:
        ws.close()


def run_all(scenarios, workers=None):
    workers = workers or min(16, vf.NCPU)
    with ThreadPoolExecutor(max_workers=workers) as ex:
        results = list(ex.map(run_scenario, scenarios))
    for evs, info in results:
        if "unexpected" in info:
            raise vf.Infra("CLI ended in a way the harness does not understand (scenario %s): %s" % (info["id"], info["unexpected"]))
    return results


def write_traces(results, d):
    """monitor trace (no hooks) and conformance trace (everything); returns paths + case index (line ranges in both)."""
    mon, conf = os.path.join(d, "monitor.ndjson"), os.path.join(d, "conform.ndjson")
    idx = {}
    lm = lc = 0
    with open(mon, "w") as fm, open(conf, "w") as fc:
        for evs, info in results:
            first_m, first_c = lm + 1, lc + 1
            for e in evs:
                line = json.dumps(e, separators=(",", ":")) + "\n"
                fc.write(line)
                lc += 1
                if e["ev"] != "hook":
                    fm.write(line)
                    lm += 1
            idx[info["id"]] = {"mon": (first_m, lm), "conf": (first_c, lc), "info": info}
    return mon, conf, idx


def all_configs(nf, nsmax, modes=("none", "file", "all"), counts=(0,), max_dir=1, fails=True):
    import itertools
    out = []
    dirs = [d for d in itertools.product(["", "none", "file"], repeat=nf) if sum(1 for x in d if x) <= max_dir]
    for mode in modes:
        for d in dirs:
            for nst in itertools.product(range(1, nsmax + 1), repeat=nf):
                fl = [[0, 0]]
                if fails:
                    fl += [[f, i] for f in range(1, nf + 1) for i in range(1, nst[f - 1] + 1)]
                for fail in fl:
                    for cnt in counts:
                        out.append({"mode": mode, "dir": list(d), "nst": list(nst), "fail": fail, "count": cnt})
    return out
