"""CLI part of C11: operation histories of MigrateOps.tla (add file / fix file / apply [n] / set v) simulated by TLC and replayed on the
real CLI with a SQLite file; after every operation `migrate status`, the revision table and the journal (read by an independent client)
must equal the model's observation."""
import json
import os
from concurrent.futures import ThreadPoolExecutor

import cli
import vf


def fname(v):
    return "%03d_f.sql" % v


def write(ws, v, bad):
    ws.write(fname(v), "CREATE TABLE IF NOT EXISTS j (v INTEGER, i INTEGER);\nINSERT INTO j VALUES (%d, 1);\nINSERT INTO %s VALUES (%d, 2);\n" % (v, "missing_table" if bad else "j", v))
    ws.hash()


def observe(ws, n):
    d = cli.read_disk(ws.db)
    revs = []
    for v in range(1, n + 1):
        r = d["revs"].get("%03d" % v)
        if r is None:
            revs.append({"st": "none", "applied": 0, "total": 0})
        else:
            st = "resolved" if r["type"] == 4 else "exec" if r["type"] in (2, 6) else "type%s" % r["type"]
            revs.append({"st": st, "applied": r["applied"], "total": r["total"]})
    extra = sorted(k for k in d["revs"] if not (k.isdigit() and 1 <= int(k) <= n))
    rc, o, e = ws.atlas("migrate", "status", "--url", ws.url(), "--dir", "file://" + ws.dir, "--format", "{{ json . }}")
    try:
        st = json.loads(o)
    except ValueError:
        st = None
    if st is None:
        status = {"kind": "unreadable", "files": [], "raw": (o + e)[-300:]}
    elif "out of order" in (st.get("Error") or "") or "non-linear" in (st.get("Error") or ""):
        status = {"kind": "nonlinear", "files": [int(f["Version"]) for f in st.get("Pending") or []]}
    elif st.get("Error"):
        status = {"kind": "error", "files": [], "raw": st["Error"][:300]}
    else:
        files = [int(f["Version"]) for f in st.get("Pending") or []]
        status = {"kind": "pending" if files else "ok", "files": files, "status_field": st.get("Status")}
    return {"revs": revs, "journal": [list(x) for x in d["journal"]], "status": status, "extra": extra}


def expected(obs):
    st = obs["status"]
    return {"revs": [{"st": r["st"], "applied": r["applied"], "total": r["total"]} for r in obs["revs"]],
            "journal": [list(x) for x in obs["journal"]], "status": {"kind": st["kind"], "files": list(st["files"])}}


def same(exp, got):
    if exp["revs"] != got["revs"] or exp["journal"] != got["journal"] or got["extra"]:
        return False
    if exp["status"]["kind"] != got["status"]["kind"]:
        return False
    # the model lists the pending files of a non-linear history too; the CLI reports the error
    if exp["status"]["kind"] != "nonlinear" and exp["status"]["files"] != got["status"]["files"]:
        return False
    if got["status"]["kind"] in ("ok", "pending") and got["status"].get("status_field") != {"ok": "OK", "pending": "PENDING"}[got["status"]["kind"]]:
        return False
    return True


def replay(job):
    hid, hist, n = job
    ws = cli.WS()
    try:
        ws.hash()
        for k, step in enumerate(hist, 1):
            op = step["op"]
            if op["k"] == "add":
                write(ws, op["v"], op["bad"])
            elif op["k"] == "fix":
                write(ws, op["v"], False)
            elif op["k"] == "apply":
                a = ["migrate", "apply"] + ([str(op["n"])] if op["n"] else []) + ["--url", ws.url(), "--dir", "file://" + ws.dir, "--tx-mode", "file"]
                rc, o, e = ws.atlas(*a)
                if "panic:" in o + e:
                    return {"hid": hid, "step": k, "op": op, "why": "panic", "out": (o + e)[-600:]}
            elif op["k"] == "set":
                ws.atlas("migrate", "set", "%03d" % op["v"], "--url", ws.url(), "--dir", "file://" + ws.dir)
            ws.events()
            got = observe(ws, n)
            exp = expected(step["obs"])
            if not same(exp, got):
                return {"hid": hid, "step": k, "op": op, "why": "observation differs from MigrateOps.tla", "expected": exp, "observed": got,
                        "history": [s["op"] for s in hist[:k]]}
        return None
    finally:
        ws.close()


def run(v, tier):
    vf.build_atlas()      # the CLI under test is rebuilt from /repo's working tree
    quick = tier == "quick"
    mc = vf.tlc("MigrateOps", "MigrateOps.mc.cfg", defines={"Depth": 5 if quick else 7}, workers=8, heap="8g", timeout=2400)
    if not mc.ok:
        raise vf.Infra("MigrateOps.tla violates its own invariant (specification bug): %s" % mc.violated)
    n = 4
    r = vf.tlc("MigrateOps", "MigrateOps.sim.cfg", defines={"Depth": 8}, workers=1, heap="4g", timeout=1800,
               simulate="num=%d" % (60 if quick else 600), depth=12, tlc_seed=vf.seed())
    hists = vf.vtraces(r)
    # every history of the directed shape add, add, apply, add, set, apply (gaps in the revision table, out-of-order files)
    g = vf.tlc("MigrateOps", "MigrateOps.gap.cfg", workers=1, heap="4g", timeout=1200)
    if not g.ok:
        raise vf.Infra("MigrateOps.tla (directed histories) violates its own invariant: %s" % g.violated)
    gh = vf.vtraces(g)
    hists = gh + hists
    seen, uniq = set(), []
    for h in hists:
        key = json.dumps([s["op"] for s in h], sort_keys=True)
        if key not in seen:
            seen.add(key)
            uniq.append(h)
    if len(uniq) < 10:
        raise vf.Infra("MigrateOps simulation produced only %d histories" % len(uniq))
    with ThreadPoolExecutor(max_workers=16) as ex:
        res = list(ex.map(replay, [(i, h, n) for i, h in enumerate(uniq, 1)]))
    kinds = {}
    nops = 0
    for h in uniq:
        for s in h:
            nops += 1
            kinds[s["op"]["k"]] = kinds.get(s["op"]["k"], 0) + 1
    for bad in res:
        if bad:
            v.violation({"part": "cli-ops", "op": bad["op"]["k"], "why": bad["why"], "history": json.dumps(bad.get("history", []))}, bad)
    return {"states": mc.distinct, "transitions": mc.generated, "histories": len(uniq), "ops": nops, "op_kinds": kinds,
            "samples": [{"history": [s["op"] for s in uniq[0]], "last_obs": expected(uniq[0][-1]["obs"])}]}
