"""CLI part of C12: every (n <= 5, progress k, edit) scenario on the real CLI with a SQLite file and --tx-mode none; the observations are
judged by TLC (ResumeMonitor.tla)."""
import hashlib
import os
from concurrent.futures import ThreadPoolExecutor

import cli
import vf
from checks import applycli


def stmt(i, bad=False):
    return "INSERT INTO %s VALUES (1, %d);" % ("missing_table" if bad else "j", i)


def edits(n):
    base = list(range(1, n + 1))
    out = []
    for i in range(n):
        e = list(base)
        e[i] = 10 + base[i]
        out.append(("change", i + 1, e))
        e = list(base)
        del e[i]
        out.append(("delete", i + 1, e))
    for i in range(n + 1):
        e = list(base)
        e.insert(i, 20 + i)
        out.append(("insert", i + 1, e))
    for i in range(n - 1):
        e = list(base)
        e[i], e[i + 1] = e[i + 1], e[i]
        out.append(("swap", i + 1, e))
    for length in range(1, n):
        out.append(("truncate", length, base[:length]))
    out.append(("none", 0, list(base)))
    return out


def one(sc):
    n, k, kind, idx, new = sc["n"], sc["k"], sc["kind"], sc["idx"], sc["new"]
    ws = cli.WS()
    try:
        cli.sql(ws.db, "CREATE TABLE j (v INTEGER, i INTEGER);")
        ws.write("001_f.sql", "\n".join(stmt(i, bad=(i == k + 1)) for i in range(1, n + 1)) + "\n")
        ws.hash()
        args = ["migrate", "apply", "--url", ws.url(), "--dir", "file://" + ws.dir, "--tx-mode", "none", "--allow-dirty"]
        rc, o, e = ws.atlas(*args)
        first = applycli.classify(rc, o, e)

        def snap():
            d = cli.read_disk(ws.db)
            r = d["revs"].get("001") or {"applied": -1, "total": -1, "err": False}
            return [x[1] for x in d["journal"]], {"applied": r["applied"], "total": r["total"], "err": r["err"]}, hashlib.sha1((cli.dump(ws.db) or "").encode()).hexdigest()

        jb, rb, db = snap()
        ws.write("001_f.sql", "\n".join(stmt(i) for i in new) + "\n")
        ws.hash()
        rc, o, e = ws.atlas(*args)
        cls = applycli.classify(rc, o, e)
        if cls.startswith("signal"):
            cls = "signal"
        ja, ra, da = snap()
        ws.events()
        return {"n": n, "k": k, "edit": kind, "idx": idx, "base": list(range(1, n + 1)), "new": new, "jb": jb, "ja": ja, "rb": rb, "ra": ra, "cls": cls, "same": db == da,
                "first": first, "msg": (e.strip().split("\n") or [""])[-1][:300] if rc else ""}
    finally:
        ws.close()


def run(v, tier):
    vf.build_atlas()      # the CLI under test is rebuilt from /repo's working tree
    nmax = 4 if tier == "quick" else 5
    scs = []
    for n in range(1, nmax + 1):
        for k in range(0, n):
            for kind, idx, new in edits(n):
                scs.append({"n": n, "k": k, "kind": kind, "idx": idx, "new": new})
    with ThreadPoolExecutor(max_workers=16) as ex:
        obs = list(ex.map(one, scs))
    for i, o in enumerate(obs, 1):
        o["id"] = i
        if o["first"] != "stmt-failed":
            raise vf.Infra("C12 CLI scenario did not fail at statement %d on its first run: %s" % (o["k"] + 1, o["first"]))
    d = vf.scratch("c12cli")
    try:
        p = os.path.join(d, "t.ndjson")
        open(p, "w").write(vf.ndjson([{k: o[k] for k in ("id", "k", "base", "new", "jb", "ja", "rb", "ra", "cls", "same")} for o in obs]))
        viols, _, _ = vf.monitor_trace("ResumeMonitor", "ResumeMonitor.cfg", p, independent=True)
    finally:
        vf.rm(d)
    per = {}
    for oid, name in viols:
        per.setdefault(oid, []).append(name)
    for oid, names in sorted(per.items()):
        o = obs[oid - 1]
        v.violation({"part": "cli", "n": o["n"], "k": o["k"], "edit": o["edit"], "idx": o["idx"], "first_violation": sorted(names)[0]},
                    {"violated": sorted(names), "observation": o})
    return {"n": len(obs), "ok": len(obs) - len(per), "refused": sum(1 for o in obs if o["cls"] == "history-changed"), "resumed": sum(1 for o in obs if o["cls"] == "ok")}
