"""C15 - HCL round trip returns an equivalent schema, for every dialect and column type.

spec : SchemaModel.tla supplies the structure / attribute combinations (states of the C02 corpus); the HCL round trip is an observation
       step that must not change the catalogue; HCLTrace.tla states the equalities (diff empty both ways, second marshal byte-identical,
       FormatType/ParseType fixpoint). The model is PARAMETRIC in the type ids: the binding validates the assumption Parse(Format(t)) = t
       on the implementation for every concrete type.
bind : S->C. Per dialect the harness enumerates TypeRegistry.Specs() x a parameter grid derived from each spec's attributes (size, precision
       0/3/6, scale, unsigned, enum / set values, ...), checks the fixpoint and a one-column round trip per instance, rotates the instances
       into the opaque types of the model states (MarshalHCL -> EvalHCLBytes -> SchemaDiff both ways, re-marshal) and round-trips attribute
       showcase documents (charset / collation / comment / auto_increment / identity / generated / on_update / index types, prefix, desc,
       include, where, operator classes, nulls ordering). TLC evaluates the formulas on every observation.
"""
import json
import os
import subprocess
from checks import c02
import vf


def run(tier):
    v = vf.Verdict("C15", tier, "exploration")
    b = vf.build_harness("core", "hclrt")
    pairs, stats, _ = c02.export_pairs("quick")
    d = vf.scratch("c15")
    try:
        out = os.path.join(d, "o.ndjson")
        p = subprocess.run([b, pairs, out, "400" if tier == "quick" else "0"], stdout=subprocess.PIPE, stderr=subprocess.PIPE, text=True, timeout=3 * 3600)
        if p.returncode != 0:
            raise vf.Infra("hclrt failed: " + p.stderr[-2000:])
        info = json.loads(p.stdout)
        viols, events, _ = vf.monitor_trace("HCLTrace", "HCLTrace.cfg", out, independent=True)
        full = [json.loads(x) for x in open(out + ".full").read().split("\n") if x]
    finally:
        vf.rm(d)
        vf.rm(os.path.dirname(pairs))
    for i, name in viols:
        o = full[i - 1]
        v.violation({"dialect": o["dialect"], "kind": o["kind"], "formula": name, "label": o["type"] if o["kind"] in ("showcase", "objects", "default") else "", "type": o["type"] if o["kind"] == "type" else ""},
                    {"type": o["type"], "err": o["err"], "changes": o.get("changes"), "hcl": o.get("hcl", "")[:1500]})
    types = sum(c for k, c in info["counts"].items() if k.endswith(":type"))
    v.cov = {"evaluations": events, "distinct_nontrivial": types + info["states"] * 3,
             "rule": "type: one observation per distinct FormatType string of the registry x parameter grid; state: one per (dialect, model state with rotated types); "
                     "showcase: one per attribute document; non-trivial = not skipped (the type could be formatted / the document evaluated)",
             "counts": info["counts"], "skipped": sum(1 for o in full if o["skipped"])}
    v.samples = [{k: o[k] for k in ("dialect", "kind", "type", "fixpoint", "diff_fwd", "diff_bwd", "stable")} for o in full[::max(1, len(full) // 3)][:3]]
    v.assumptions = ["the type catalogue is enumerated from the Go registry, the specification contributes the structure / attribute combinations and the equalities",
                     "the model's default id is bound per type (quoted literal for strings, number for numeric types, none otherwise)"]
    return v.finish()
