"""C09 - executor runs each statement in order, once, and resumes after any failure.

spec : Apply.tla (exhaustive: every shape <= F x S, <= K faults at any ExecContext / WriteRevision / ReadRevision call, reruns;
       liveness Resumes under fairness in cfg/Apply.live.cfg)
bind : C->S. The real Executor.ExecuteN is driven through every fault plan with scripted stores; every call is an
       event; ApplyMonitor.tla evaluates the property formulas after every event (verdict), ApplyTrace.tla checks
       that the execution is a behaviour of Apply.tla (conformance; rejection = DRIFT).
"""
import json
from checks import applyapi
import vf


def run(tier):
    v = vf.Verdict("C09", tier, "model_checking")
    if tier == "quick":
        mc = dict(MaxF=3, MaxS=3, MaxFaults=2, MaxRuns=4)
        args = ["-maxf", "3", "-maxs", "2", "-faults", "2"]
    else:
        mc = dict(MaxF=3, MaxS=3, MaxFaults=3, MaxRuns=5)
        args = ["-maxf", "3", "-maxs", "3", "-faults", "3", "-sample", "0.08"]
    r = vf.tlc("ApplyMC", "Apply.c09.cfg", defines=mc, workers=8, heap="8g", timeout=1800)
    if not r.ok:
        raise vf.Infra("Apply.tla violates its own properties (specification bug): %s\n%s" % (r.violated, r.error_trace[:3000]))
    # liveness half of "resumes after any failure": K faults, K + 1 whole-directory runs, fair scheduling => everything applied for good
    live = dict(MaxF=mc["MaxF"], MaxS=mc["MaxS"], MaxFaults=mc["MaxFaults"], MaxRuns=mc["MaxFaults"] + 1)
    rl = vf.tlc("ApplyMC", "Apply.live.cfg", defines=live, workers=8, heap="8g", timeout=1800)
    if not rl.ok:
        raise vf.Infra("Apply.tla violates its liveness property Resumes (specification bug): %s\n%s" % (rl.violated, rl.error_trace[:3000]))
    # the property is not vacuous: one run too few and TLC produces the behaviour that stays pending
    rv = vf.tlc("ApplyMC", "Apply.live.cfg", defines=dict(MaxF=2, MaxS=2, MaxFaults=2, MaxRuns=2), workers=4, heap="2g", timeout=600)
    if "temporal" not in rv.violated:
        raise vf.Infra("Apply.live.cfg is vacuous: Resumes holds although the runs cannot absorb the faults")
    d, trace, cases, info = applyapi.record("c09", args)
    try:
        byid = {c["id"]: c for c in cases}
        viols, events, _ = vf.monitor_trace("ApplyMonitor", "ApplyMonitor.cfg", trace)
        percase = {}
        for cid, name in viols:
            percase.setdefault(cid, []).append(name)
        for cid, names in sorted(percase.items()):
            names.sort(key=lambda n: applyapi.PRIORITY.index(n) if n in applyapi.PRIORITY else 99)
            c = byid[cid]
            case = {"part": "api", "shape": c["shape"], "exec_faults": c["exec_faults"], "write_faults": c["write_faults"], "n": c["n"],
                    "first_violation": names[0], "panic": bool(c.get("panic"))}
            if c.get("read_faults"):
                case["read_faults"] = c["read_faults"]
            v.violation(case, {"violated": names, "panic": c.get("panic"), "events": applyapi.events_of(trace, c)})
        drift, visited, accepted, more = vf.conform_trace("ApplyTrace", "ApplyTrace.cfg", trace, applyapi.case_locator(cases))
        for dr in drift:
            c = byid[dr["case"]]
            if dr["invariant"] and dr["case"] not in percase:
                # an invariant of Apply.tla itself failed on a real execution -> that IS a property violation
                v.violation({"part": "api", "shape": c["shape"], "exec_faults": c["exec_faults"], "write_faults": c["write_faults"], "n": c["n"],
                             "first_violation": dr["invariant"], "panic": False},
                            {"violated": [dr["invariant"]], "events": applyapi.events_of(trace, c)})
            else:
                v.drift_note("execution %s is not a behaviour of Apply.tla at event +%d: shape=%s faults=%s/%s" % (
                    dr["case"], dr["offset_in_case"], c["shape"], c["exec_faults"], c["write_faults"]))
        v.cov = {"states": r.distinct, "transitions": r.generated, "traces_validated_against_impl": len(cases) - len(percase),
                 "events": events, "executions": len(cases), "exhaustive": tier == "quick",
                 "spec_states_visited_by_impl_traces_min": visited, "spec_states_reachable": r.distinct,
                 "model": mc, "harness_args": args, "liveness": {"config": "Apply.live.cfg", "property": "Resumes", "model": live,
                                                                  "states": rl.distinct, "vacuity_probe_violated": True}, "conformance_accepted_events": accepted, "conformance_incomplete": more,
                 "explanation": "exhaustive TLC run of Apply.tla; every fault plan replayed on the real Executor, monitored and conformance-checked by TLC"}
        v.samples = [{"case": {k: cases[i][k] for k in ("shape", "exec_faults", "write_faults", "n", "runs")},
                      "events": applyapi.events_of(trace, cases[i], 12)} for i in (len(cases) // 3, len(cases) - 1)]
        v.assumptions = ["scripted Driver/RevisionReadWriter doubles implement journal-append / revision-upsert semantics",
                         "SHA-256 injective", "no checkpoints/baseline at this level (covered by C11)"]
    finally:
        vf.rm(d)
    return v.finish()
