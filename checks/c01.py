"""C01 - declarative apply converges: one plan takes any database to the desired schema.

spec : SqliteModel.tla (catalogue with C01's feature list, edit catalogue, WF = accepted by the engine and satisfiable on populated
       tables), SqliteModelMC.tla (pairs from / to every seed: every single edit forward and, where admissible, backward), EngineTrace.tla
bind : S->C. Every exported (current, desired) pair: the current state is created on a real SQLite file by the harness's own DDL
       renderer (and re-projected as a self-check), populated, then Atlas's SQLite driver does InspectSchema -> SchemaDiff (normalized)
       -> PlanChanges and the statements are executed; an independent pragma-based projection of the database must equal the desired
       state (NotConverged), no statement may fail (PlanOrExecError) and the diff computed right afterwards must be empty
       (SecondPlanNotEmpty). TLC evaluates these formulas on every observation.
       MySQL / PostgreSQL (no engine): ColCatalog.tla / ColCatalogTrace.tla - for every ordered pair of 24 definitions of one column the
       differ's changes are planned and the column clauses of the statements, interpreted by the model, must end in the desired columns.
"""
from checks import engine, plancat
import vf

NAMES = {"PlanOrExecError", "NotConverged", "SecondPlanNotEmpty"}


def run(tier):
    v = vf.Verdict("C01", tier, "model_checking")
    viols, full, n, info = engine.run_engine(tier, cli_every=40 if tier == "quick" else 4)
    bad = engine.report(v, viols, full, NAMES)
    cviols, cfull = info.pop("cli", ([], []))
    cbad = set()
    for i, name in cviols:
        if name in NAMES and not cfull[i - 1].get("mustrefuse"):
            o = cfull[i - 1]
            cbad.add(i)
            case = engine.case_of(o, name)
            case["part"] = "cli"
            v.violation(case, engine.detail_of(o))
    cskip = sum(1 for o in cfull if o["skipped"])
    if cfull and cskip > len(cfull) // 5:
        raise vf.Infra("the CLI slice could not set up %d of %d pairs: %s" % (cskip, len(cfull), [o["skipped"] for o in cfull if o["skipped"]][:3]))
    cli = {"n": len(cfull) - cskip, "ok": len(cfull) - cskip - len(cbad)}
    v.cov = {"states": n, "transitions": n, "traces_validated_against_impl": n - info["skipped"] - len(bad) + cli.get("ok", 0),
             "pairs": n, "skipped_by_engine": info["skipped"], "skip_reasons": info["skip_reasons"], "cli_pairs": cli.get("n", 0),
             "explanation": "states = (current, desired) pairs exported by TLC from SqliteModel.tla (single edits to/from 4 seed catalogues covering autoincrement, "
                            "composite / reordered keys, WITHOUT ROWID, STRICT, generated columns, partial / descending / unique indexes, named / unnamed checks, "
                            "self / cross foreign keys with all five actions); each executed on a real SQLite file"}
    # MySQL / PostgreSQL, catalogue level (no engine): a column modified in place; differ -> planner -> the column clauses interpreted by
    # ColCatalog.tla must arrive at the desired columns
    v.cov["catalog_column_level"] = plancat.colmod(v, "-up", "catalog-colmod")
    v.samples = engine.sample(full)
    v.assumptions = ["the harness's DDL renderer and pragma projection are correct (every start state is re-projected and compared with the model state before use)",
                     "literal defaults, column index parts, one foreign key per table; TEXT -> INT type changes and NOT NULL additions without default are outside the domain (the engine itself refuses the data)"]
    return v.finish()


