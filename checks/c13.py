"""C13 - failure atomicity follows the transaction mode; dry-run changes nothing.

spec : ApplyTx.tla (exhaustive: modes x per-file directives x shapes x failing position x count x dry-run), ApplyTxMonitor.tla
bind : C->S. The real CLI binary on SQLite files for every configuration; the database is read by an independent client after
       every command; TLC evaluates FailState / SuccessState / DryRunChangesNothing / NoSpuriousError ... on the recorded run.
"""
import json
from checks import applycli
import vf


def sig(cfg, sc):
    nf = len(cfg["nst"])
    dpos = [i + 1 for i, d in enumerate(cfg["dir"]) if d]
    return {"part": "migrate-apply", "mode": cfg["mode"], "dir": cfg["dir"], "nst": cfg["nst"], "fail": cfg["fail"], "count": cfg["count"],
            "dry_at": sc.get("dry_at", []), "dry_on_fresh_db": 0 in sc.get("dry_at", []), "baseline": cfg.get("baseline", 0),
            "directive": (cfg["dir"][dpos[0] - 1] if dpos else ""), "directive_on_last": bool(dpos) and dpos[0] == nf,
            "directive_file_under_none_not_last": cfg["mode"] == "none" and any(d == "file" and i + 1 < nf for i, d in enumerate(cfg["dir"]))}


def scenarios(tier):
    if tier == "quick":
        cfgs = applycli.all_configs(2, 2, counts=(0, 1), max_dir=1)
    else:
        cfgs = applycli.all_configs(3, 2, counts=(0, 1, 2), max_dir=2)
    scs = []
    for cfg in cfgs:
        scs.append({"id": len(scs) + 1, "cfg": cfg})
        if cfg["fail"] != [0, 0]:
            # the same failure repaired by a file that is one statement longer
            scs.append({"id": len(scs) + 1, "cfg": cfg, "fix_extra": True})
        if cfg["fail"] == [0, 0] or cfg["fail"] == [1, 1]:
            # dry-run on the fresh database, and after the first real command (revision table exists, maybe partial progress)
            scs.append({"id": len(scs) + 1, "cfg": cfg, "dry_at": [0]})
            scs.append({"id": len(scs) + 1, "cfg": cfg, "dry_at": [1]})
    for mode in ("none", "file", "all"):
        for first in (True, False):
            cfg = {"mode": mode, "dir": ["", ""], "nst": [1, 2], "fail": [0, 0], "count": 0, "baseline": 1}
            scs.append({"id": len(scs) + 1, "cfg": cfg, "dry_at": [0] if first else [1]})
    return scs


def run(tier):
    v = vf.Verdict("C13", tier, "model_checking")
    vf.build_atlas()
    mcdef = dict(NF=2, NS=2, Counts="{0,1}", Drys="{FALSE,TRUE}", MaxDir=2, MaxCrash=0, MaxCmds=4, Variant="intended")
    if tier != "quick":
        mcdef.update(NF=3, MaxDir=1, MaxCmds=5)
    r = vf.tlc("ApplyTxMC", "ApplyTx.mc.cfg", defines=mcdef, workers=8, heap="12g", timeout=3000)
    if not r.ok:
        raise vf.Infra("ApplyTx.tla violates its own properties: %s\n%s" % (r.violated, r.error_trace[:3000]))
    scs = scenarios(tier)
    results = applycli.run_all(scs)
    d = vf.scratch("c13")
    try:
        mon, conf, idx = applycli.write_traces(results, d)
        viols, events, _ = vf.monitor_trace("ApplyTxMonitor", "ApplyTxMonitor.cfg", mon)
        bysc = {s["id"]: s for s in scs}
        percase = {}
        for cid, name in viols:
            percase.setdefault(cid, []).append(name)
        for cid, names in sorted(percase.items()):
            sc = bysc[cid]
            case = sig(sc["cfg"], sc)
            case["first_violation"] = sorted(names)[0]
            case["formulas"] = ",".join(sorted(names))
            evs = [e for e in results[cid - 1][0] if e["ev"] != "hook"]
            v.violation(case, {"violated": sorted(names), "cmds": idx[cid]["info"]["cmds"], "events": evs})
        other = schema_apply_part(v, tier)
        v.cov = {"states": r.distinct, "transitions": r.generated, "traces_validated_against_impl": len(scs) - len(percase) + other.get("ok", 0),
                 "scenarios": len(scs), "events": events, "cli_invocations": sum(len(x[1]["cmds"]) for x in results),
                 "schema_apply_cases": other.get("n", 0), "exhaustive": True, "model": mcdef,
                 "explanation": "every (mode, directive placement, shape, failing position, count) configuration run on the real CLI with SQLite; "
                                "disk read independently after each command; formulas of C13 evaluated by TLC on each run"}
        v.samples = [{"cfg": scs[i]["cfg"], "events": [e for e in results[i][0] if e["ev"] != "hook"][:12]} for i in (len(scs) // 2,)]
        v.assumptions = ["SQLite file database; python sqlite3 as the independent reader", "statements are journal INSERTs; the failing statement targets a missing table",
                         "the journal table pre-exists (--allow-dirty)"]
    finally:
        vf.rm(d)
    return v.finish()


def schema_apply_part(v, tier):
    try:
        from checks import c13schema
    except ImportError:
        return {}
    return c13schema.run(v, tier)
