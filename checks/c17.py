"""C17 - reverse statements undo the plan: up then down restores the original schema.

spec : SqliteModel.tla + EngineTrace.tla (UndoRestores: Plan.Reversible => executing the reverse statements of the changes in reverse order
       gives back the start state; DownFailed), PlanFile.tla / PlanFileTrace.tla (down file = flattened reversed reverse statements;
       Reversible <=> every change has reverse statements), PlanCatalogTrace.tla / ColCatalogTrace.tla (catalogue-level up/down for MySQL / PostgreSQL:
       tables, foreign keys with their actions, checks; the columns of a table)
bind : S->C on SQLite (the C01 pairs: up, then down, independent projection = start state); all three dialects x six formatters for the
       down-file and Reversible-flag consistency (the C07 round-trip corpus); MySQL / PostgreSQL planners' up+down statement lists for every
       FK-graph scenario over <= 3 tables, every CHECK-constraint change list and every ordered pair of definitions of a foreign key
       modified in place (referenced table, actions) replayed through the catalogue model, every ordered pair of 24 definitions of
       one column (3 types x nullability x default / generation expression) through the column model (coverage.catalog_updown).
"""
import json
import os
import subprocess
from checks import engine, plancat
import vf

NAMES = {"DownFailed", "UndoNotRestored"}


def run(tier):
    v = vf.Verdict("C17", tier, "exploration")
    # the engine part runs next to the two other parts (they share nothing)
    from concurrent.futures import ThreadPoolExecutor
    pool = ThreadPoolExecutor(max_workers=1)
    fut = pool.submit(engine.run_engine, tier, 0, True)
    # down files / Reversible flag through the formatters (observations of the C07 corpus, formulas DownStatementsDiffer / ReversibleFlag)
    b = vf.build_harness("core", "roundtrip")
    r = vf.tlc("LexerContents", "LexerContents.cfg", defines={"NQ": 1, "QQ": 0}, keep=True, timeout=600)
    d = vf.scratch("c17")
    try:
        trace = os.path.join(d, "t.ndjson")
        p = subprocess.run([b, os.path.join(r.dir, "contents.ndjson"), trace, "0"], stdout=subprocess.PIPE, stderr=subprocess.PIPE, text=True,
                           env=dict(os.environ, VERIF_SCRATCH=d), timeout=3000)
        if p.returncode != 0:
            raise vf.Infra("roundtrip failed: " + p.stderr[-2000:])
        fviols, fevents, _ = vf.monitor_trace("PlanFileTrace", "PlanFileTrace.cfg", trace, independent=True)
        fulls = open(trace + ".full").read().split("\n") if fviols else []
        for oid, name in fviols:
            if name not in ("DownStatementsDiffer", "ReversibleFlag"):
                continue   # up-statement problems are C07's
            o = json.loads(fulls[oid - 1])
            v.violation({"part": "downfile", "formula": name, "dialect": o["case"]["dialect"], "format": o["obs"]["format"], "kind": o["case"]["kind"], "content": o["case"]["content"],
                         "has_nl": "\n" in o["case"]["content"]},
                        {"down": o["obs"]["down"], "wantdown": o["obs"]["wantdown"], "reversible": o["obs"]["reversible"], "allrev": o["obs"]["allrev"]})
    finally:
        vf.rm(d)
        vf.rm(r.dir)
    # catalogue-level up/down for MySQL / PostgreSQL
    cat = {"plans": 0, "bad": 0}
    for args in (["-checks"], ["-fkmod"], ["-n", "2", "-roles", "all", "-updown"], ["-n", "3", "-roles", "all", "-updown"] + (["-sample", "0.2"] if tier == "quick" else [])):
        dd, tr, cases, _ = plancat.record(args)
        try:
            per, ev = plancat.validate(tr)
            byid = {c["id"]: c for c in cases}
            cat["plans"] += sum(1 for c in cases if c["dir"] in ("updown", "checks-updown", "fkmod-updown"))
            for cid, names in sorted(per.items()):
                c = byid[cid]
                if c["dir"] not in ("updown", "checks-updown", "fkmod-updown"):
                    continue
                cat["bad"] += 1
                case = plancat.shape(c) if c["dir"] == "updown" else {"dialect": c["dialect"], "scenario": c["roles"], "dir": c["dir"]}
                case.update({"part": "catalog-updown", "first_violation": names[0]})
                v.violation(case, {"violated": names, "statements": c.get("stmts")})
        finally:
            vf.rm(dd)
    # column level: one column modified in place (type, nullability, default, generation expression), differ -> planner -> clauses
    colcat = plancat.colmod(v, "-updown", "catalog-colmod-updown")
    cat["plans"] += colcat["planned"]
    cat["bad"] += colcat["bad"]
    cat["column_level"] = colcat
    viols, full, n, info = fut.result()
    pool.shutdown()
    bad = engine.report(v, viols, full, NAMES)
    nrev = sum(1 for o in full if o["reversible"])
    distinct = len({json.dumps([o["from"], o["to"]], sort_keys=True) for o in full if o["reversible"]})
    v.cov = {"evaluations": nrev + fevents + cat["plans"], "distinct_nontrivial": distinct + cat["plans"],
             "rule": "engine: (current, desired) pairs whose plan is reported reversible, executed up and down on a real SQLite file (distinct by state pair); "
                     "downfile: one observation per (plan, formatter); catalog: MySQL/PostgreSQL up+down statement lists of FK-graph scenarios",
             "engine_pairs": n, "engine_reversible_plans": nrev, "inline_unique_desired_updown": info.get("inline_desired_updown", 0), "downfile_observations": fevents, "catalog_updown": cat}
    v.samples = [{"edit": engine.diffstate(o["from"], o["to"]), "up": o.get("stmts"), "down": o.get("down")} for o in full if o["reversible"] and o.get("down")][:1]
    v.assumptions = ["rows lost by a down migration (re-added columns) are not part of C17; only the schema is compared", "MySQL / PostgreSQL have no engine here: catalogue level only (tables, live foreign keys with their actions, checks, non-empty index key lists)"]
    return v.finish()
