"""`schema apply` part of C13: default mode is all-or-nothing, --dry-run changes nothing (SchemaApplyTx.tla, SchemaApplyMonitor.tla)."""
import itertools
import json
import os
from concurrent.futures import ThreadPoolExecutor

import cli
import vf

BASE_SQL = """
CREATE TABLE t (id integer NOT NULL, v text NULL);
CREATE TABLE u (id integer NOT NULL, w text NULL);
INSERT INTO t VALUES (1, 'a'), (1, 'b'), (2, NULL);
INSERT INTO u VALUES (7, 'x'), (7, 'y');
"""

GOOD = {
    "add_table": 'table "n1" {\n  schema = schema.main\n  column "id" {\n    null = false\n    type = integer\n  }\n}\n',
    "add_col_t": ("t", '  column "c" {\n    null = true\n    type = integer\n  }\n'),
    "add_idx_t": ("t", '  index "t_v" {\n    columns = [column.v]\n  }\n'),
    "add_col_u": ("u", '  column "d" {\n    null = true\n    type = text\n  }\n'),
}
BAD = {
    "uniq_t": ("t", '  index "t_id_u" {\n    unique = true\n    columns = [column.id]\n  }\n'),
    "uniq_u": ("u", '  index "u_id_u" {\n    unique = true\n    columns = [column.id]\n  }\n'),
    "check_t": ("t", '  check "big" {\n    expr = "id > 5"\n  }\n'),
}


def hcl(good, bad):
    tbl = {"t": '  column "id" {\n    null = false\n    type = integer\n  }\n  column "v" {\n    null = true\n    type = text\n  }\n',
           "u": '  column "id" {\n    null = false\n    type = integer\n  }\n  column "w" {\n    null = true\n    type = text\n  }\n'}
    extra = ""
    cols = {"t": "", "u": ""}
    rest = {"t": "", "u": ""}
    for g in good:
        x = GOOD[g]
        if isinstance(x, str):
            extra += x
        elif "column" in x[1].split("\n")[0]:
            cols[x[0]] += x[1]
        else:
            rest[x[0]] += x[1]
    if bad:
        rest[BAD[bad][0]] += BAD[bad][1]
    out = 'schema "main" {\n}\n'
    for name in ("t", "u"):
        out += 'table "%s" {\n  schema = schema.main\n%s%s%s}\n' % (name, tbl[name], cols[name], rest[name])
    return out + extra


def one(sc):
    ws = cli.WS()
    try:
        cli.sql(ws.db, BASE_SQL)
        path = os.path.join(ws.root, "desired.hcl")
        open(path, "w").write(hcl(sc["good"], sc["bad"]))
        before = cli.dump(ws.db)
        args = ["schema", "apply", "--url", ws.url(), "--to", "file://" + path]
        args += ["--dry-run"] if sc["dry"] else ["--auto-approve"]
        if sc["mode"] != "file":
            args += ["--tx-mode", sc["mode"]]
        rc, out, err = ws.atlas(*args)
        after = cli.dump(ws.db)
        return {"ev": "obs", "c": sc["id"], "mode": sc["mode"], "dry": sc["dry"], "bad": bool(sc["bad"]), "good": len(sc["good"]),
                "ok": rc == 0, "same": before == after, "msg": (err.strip().split("\n") or [""])[-1][:200], "plan": out[-600:] if sc["dry"] else ""}
    finally:
        ws.close()


def run(v, tier):
    r = vf.tlc("SchemaApplyTx", "SchemaApplyTx.cfg", workers=2, timeout=300)
    if not r.ok:
        raise vf.Infra("SchemaApplyTx.tla violates its own invariants: %s" % r.violated)
    goods = [()] + [(g,) for g in GOOD] + list(itertools.combinations(GOOD, 2))
    if tier != "quick":
        goods += list(itertools.combinations(GOOD, 3)) + [tuple(GOOD)]
    scs = []
    for g in goods:
        for bad in [None] + list(BAD):
            for mode in ("file", "none"):
                for dry in (False, True):
                    if not g and not bad:
                        continue
                    scs.append({"id": len(scs) + 1, "good": list(g), "bad": bad, "mode": mode, "dry": dry})
    with ThreadPoolExecutor(max_workers=16) as ex:
        obs = list(ex.map(one, scs))
    d = vf.scratch("c13s")
    try:
        p = os.path.join(d, "t.ndjson")
        open(p, "w").write(vf.ndjson(obs))
        viols, events, _ = vf.monitor_trace("SchemaApplyMonitor", "SchemaApplyMonitor.cfg", p, independent=True)
    finally:
        vf.rm(d)
    per = {}
    for cid, name in viols:
        per.setdefault(cid, []).append(name)
    for cid, names in sorted(per.items()):
        sc = scs[cid - 1]
        v.violation({"part": "schema-apply", "good": sc["good"], "bad": sc["bad"], "mode": sc["mode"], "dry": sc["dry"], "ngood": len(sc["good"]),
                     "formulas": ",".join(sorted(names))}, {"violated": sorted(names), "obs": obs[cid - 1]})
    v.notes.append("schema apply: %d invocations, SchemaApplyTx.tla %d states" % (len(scs), r.distinct))
    return {"n": len(scs), "ok": len(scs) - len(per), "sample": obs[len(obs) // 2]}
