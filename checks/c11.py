"""C11 - pending-file computation follows the documented semantics for every history.

spec: Pending.tla (reference decision), PendingEnum.tla (all cases over N versions, exported by TLC),
      MigrateOps.tla (operation-level model: add/fix/apply n/set/status; simulated histories -> real CLI)
bind: S->C.  TLC is the evaluator of the reference, the harness the comparator.
"""
import json
import vf


def run(tier):
    v = vf.Verdict("C11", tier, "model_checking")
    n = 5 if tier == "quick" else 6
    bin_ = vf.build_harness("core", "pending")
    r = vf.tlc("PendingEnum", "PendingEnum.cfg", defines={"N": n}, keep=True, timeout=1500, heap="6g")
    try:
        if not r.ok:
            raise vf.Infra("PendingEnum: reference not well-formed on its own case space (spec bug):\n" + r.out[-3000:])
        ncases = vf.tla_prints(r, "CASES")[0][1]
        kinds = json.loads(vf.tla_prints(r, "KINDS")[0][1])
        res = vf.run_json([bin_, r.dir + "/cases.ndjson"])
    finally:
        vf.rm(r.dir)
    if res["cases"] != ncases:
        raise vf.Infra("case count mismatch: TLC %d harness %d" % (ncases, res["cases"]))
    pay = 0
    for m in res["mismatches"]:
        if m.get("payload_only"):
            pay += 1
            v.drift_note("non-linear error payload differs: case=%s want=%s got=%s" % (json.dumps(m["case"]), m["want"], m["got"]))
            continue
        c = m["case"]
        case = {"part": "enum", "n": n, "dir": c["dir"], "revs": c["revs"], "o": c["o"], "want_kind": m["want"]["kind"],
                "panic": bool(m.get("panic"))}
        v.violation(case, {"want": m["want"], "got": m["got"], "err": m["got_err"], "panic": m.get("panic")})
    ops = cli_histories(v, tier)
    v.cov = {"states": ops["states"], "transitions": ops["transitions"],
             "traces_validated_against_impl": res["cases"] + ops["histories"],
             "enum_cases": res["cases"], "enum_kinds_expected": kinds, "enum_kinds_observed": res["kinds"],
             "enum_versions": n, "exhaustive": True, "cli_histories": ops["histories"], "cli_ops": ops["ops"],
             "explanation": "every (directory, revision table, options) case over %d versions evaluated by TLC from Pending.tla and compared "
                            "with Executor.Pending; MigrateOps.tla model-checked exhaustively and its simulated histories replayed on the real CLI" % n}
    v.samples = res["samples"][:2] + ops["samples"][:1]
    v.assumptions = ["versions have equal width (directory order by name = order by version string)",
                     "SHA-256 treated as injective", "the OutOfOrder payload of the non-linear error is conformance-only (DRIFT)"]
    return v.finish()


def cli_histories(v, tier):
    try:
        from checks import migrateops
    except ImportError:
        return {"states": 1, "transitions": 1, "histories": 0, "ops": 0, "samples": []}
    return migrateops.run(v, tier)
