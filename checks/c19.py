"""C19 - excluded resources and skipped change kinds never reach a plan.

spec : Exclude.tla (recursive glob reference Match, cross-checked against an independent formulation; resource tree schema.table.child with
       [type=..] selectors; Expect = absent / present, resources hanging off an excluded column unconstrained), SchemaModel.tla
       DiffSpecSkip / SkipSound (a disabled kind never appears at any nesting level, everything else still does)
bind : S->C. (1) every one-, two- and three-segment pattern of the bounded grid (+ two-pattern sets) rendered and given to
       schema.ExcludeRealm on a realm of 2 schemas x 3 tables with columns, indexes, a check and a foreign key: excluded resources
       absent, all others present. (2) every exported (from, to) pair of the C02 corpus diffed by the three dialect differs with each
       single skippable kind that occurs in the expectation, and with all drop kinds together (DiffSkipChanges): the change multiset
       must equal DiffSpecSkip. (3) end to end on SQLite: `schema apply --exclude ...` never touches an excluded table and
       `schema apply --env` with a diff.skip policy never plans a skipped kind.
"""
import json
import os
from checks import c02
import cli
import vf


def run(tier):
    v = vf.Verdict("C19", tier, "model_checking")
    # (1) patterns
    be = vf.build_harness("core", "exclude")
    r = vf.tlc("ExcludeMC", "ExcludeMC.cfg", heap="8g", timeout=1800, keep=True)
    try:
        if not r.ok:
            raise vf.Infra("Exclude.tla: reference inconsistent (specification bug):\n" + r.out[-2500:])
        npat = vf.tla_prints(r, "STATS")[0][1]
        ex = vf.run_json([be, os.path.join(r.dir, "exclude.ndjson")])
    finally:
        vf.rm(r.dir)
    for m in ex["mismatches"]:
        v.violation({"part": "exclude", "patterns": m["patterns"], "leaked": bool(m.get("leaked")), "lost": bool(m.get("lost")), "multi_type_selector": any("|" in p for p in m["patterns"])},
                    {"leaked": m.get("leaked"), "lost": m.get("lost"), "err": m.get("err")})
    # (2) skip policy
    bs = vf.build_harness("core", "schemadiff")
    pairs, stats, _ = c02.export_pairs("quick" if tier == "quick" else "quick")
    try:
        sk = vf.run_json([bs, pairs, "skip"], timeout=3 * 3600)
    finally:
        vf.rm(os.path.dirname(pairs))
    for m in sk["mismatches"]:
        leaked = sorted(set(m["got"]) - set(m["want"]))
        lost = sorted(set(m["want"]) - set(m["got"]))
        v.violation({"part": "skip", "dialect": m["dialect"], "policy": m["mode"], "leaked_kinds": sorted({x.split()[2] if x.startswith("ModifyTable") and len(x.split()) > 2 else x.split()[0] for x in leaked}),
                     "lost": bool(lost)}, {"leaked": leaked, "lost": lost, "from": m["pair"]["from"], "to": m["pair"]["to"]})
    # (3) end to end
    e2e = cli_part(v)
    v.cov = {"states": ex["cases"] + stats["all"], "transitions": ex["cases"] + stats["all"],
             "traces_validated_against_impl": ex["cases"] - len(ex["mismatches"]) + sk["diffs"] - len(sk["mismatches"]) + e2e["ok"],
             "pattern_sets": ex["cases"], "single_patterns": npat, "skip_pairs": sk["pairs"], "skip_diffs": sk["diffs"], "cli_cases": e2e["n"], "exhaustive": True,
             "explanation": "states = reference evaluations by TLC (pattern expectations + pairs with SkipSound verified)"}
    v.samples = ex["samples"][:2]
    v.assumptions = ["skippable kinds = the kinds of cmdapi.SkipChanges that the model produces (tables, columns, indexes, foreign keys); primary-key and check changes are not skippable by policy",
                     "resources that match no pattern but hang off an excluded column are unconstrained"]
    return v.finish()


HCL_BASE = '''schema "main" {
}
table "keep" {
  schema = schema.main
  column "id" {
    null = false
    type = integer
  }
%s}
table "secret" {
  schema = schema.main
  column "id" {
    null = false
    type = integer
  }
%s}
'''


def cli_part(v):
    vf.build_atlas()
    n = ok = 0
    ws = cli.WS()
    try:
        # database: keep(id), secret(id, x) with index; desired: keep gains a column, secret loses column x and its index, table extra is new
        cli.sql(ws.db, "CREATE TABLE keep (id integer NOT NULL); CREATE TABLE secret (id integer NOT NULL, x text); CREATE INDEX secret_x ON secret (x); CREATE TABLE gone (id integer);")
        desired = os.path.join(ws.root, "d.hcl")
        open(desired, "w").write(HCL_BASE % ('  column "n" {\n    null = true\n    type = text\n  }\n', ""))
        for pats, forbidden in ((["secret"], ["secret"]), (["secret", "gone"], ["secret", "gone"]), (["sec*"], ["secret"]), (["*[type=table]"], ["keep", "secret", "gone"]),
                                (["secret.x"], ["`x`"]), (["secret.*[type=index|column]"], ["secret_x", "`x`"])):
            n += 1
            args = ["schema", "apply", "--url", ws.url(), "--to", "file://" + desired, "--dry-run"]
            for p in pats:
                args += ["--exclude", p]
            rc, out, err = ws.atlas(*args)
            bad = [f for f in forbidden if f in out]
            if rc != 0 or bad:
                v.violation({"part": "cli-exclude", "patterns": pats}, {"rc": rc, "mentions": bad, "out": (out + err)[-800:]})
            else:
                ok += 1
        # diff policy: skip drop_table / drop_column / drop_index; the policy written in the env, at project level (inherited by an env without a
        # diff block, and by an env whose diff block holds only driver settings), and overridden by the env
        def config(where, policy):
            skip = "diff {\n    skip {\n      %s\n    }\n  }" % policy
            if where == "env":
                return 'env "dev" {\n  url = "%s"\n  src = "file://%s"\n  %s\n}\n' % (ws.url(), desired, skip)
            if where == "project":
                return '%s\nenv "dev" {\n  url = "%s"\n  src = "file://%s"\n}\n' % (skip.replace("\n  ", "\n"), ws.url(), desired)
            if where == "project+env-driver-settings":
                return '%s\nenv "dev" {\n  url = "%s"\n  src = "file://%s"\n  diff {\n    concurrent_index {\n      create = true\n    }\n  }\n}\n' % (skip.replace("\n  ", "\n"), ws.url(), desired)
            # project says nothing is skipped that matters, the env carries the policy
            return 'diff {\n  skip {\n    rename_constraint = true\n  }\n}\nenv "dev" {\n  url = "%s"\n  src = "file://%s"\n  %s\n}\n' % (ws.url(), desired, skip)
        for where in ("env", "project", "project+env-driver-settings", "env-overrides-project"):
            for policy, forbidden in (("drop_table = true", ["DROP TABLE `gone`"]), ("drop_column = true\n      drop_index = true", ["DROP COLUMN", "DROP INDEX"]),
                                      ("add_column = true", ["ADD COLUMN"])):
                n += 1
                cfg = os.path.join(ws.root, "atlas.hcl")
                open(cfg, "w").write(config(where, policy))
                rc, out, err = ws.atlas("schema", "apply", "--env", "dev", "-c", "file://" + cfg, "--dry-run")
                bad = [f for f in forbidden if f in out]
                if rc != 0 or bad:
                    v.violation({"part": "cli-skip", "policy": policy, "where": where, "rebuild_forced": False}, {"rc": rc, "mentions": bad, "out": (out + err)[-800:], "config": config(where, policy)})
                else:
                    ok += 1
        # every skippable kind SQLite can produce, one table per kind: skipping kind k removes exactly the statements of table t_k
        n += 1
        ws3 = cli.WS()
        try:
            cli.sql(ws3.db, """CREATE TABLE parent (id integer NOT NULL PRIMARY KEY);
CREATE TABLE k_add_column (id integer NOT NULL);
CREATE TABLE k_drop_column (id integer NOT NULL, x text);
CREATE TABLE k_modify_column (id integer NOT NULL, x text);
CREATE TABLE k_add_index (id integer NOT NULL, x text);
CREATE TABLE k_drop_index (id integer NOT NULL, x text); CREATE INDEX i_drop ON k_drop_index (x);
CREATE TABLE k_modify_index (id integer NOT NULL, x text); CREATE INDEX i_mod ON k_modify_index (x);
CREATE TABLE k_add_foreign_key (id integer NOT NULL, p integer);
CREATE TABLE k_drop_foreign_key (id integer NOT NULL, p integer, CONSTRAINT fk_drop FOREIGN KEY (p) REFERENCES parent (id));
CREATE TABLE k_modify_foreign_key (id integer NOT NULL, p integer, CONSTRAINT fk_mod FOREIGN KEY (p) REFERENCES parent (id) ON DELETE CASCADE);
CREATE TABLE k_drop_table (id integer NOT NULL);""")
            def col(name, typ="integer", null="false"):
                return '  column "%s" {\n    null = %s\n    type = %s\n  }\n' % (name, null, typ)
            def tab(name, body):
                return 'table "%s" {\n  schema = schema.main\n%s}\n' % (name, body)
            fkb = lambda name, extra="": '  foreign_key "%s" {\n    columns = [column.p]\n    ref_columns = [table.parent.column.id]\n%s  }\n' % (name, extra)
            d3 = 'schema "main" {\n}\n' + tab("parent", col("id") + '  primary_key {\n    columns = [column.id]\n  }\n') \
                + tab("k_add_column", col("id") + col("y", "text", "true")) \
                + tab("k_drop_column", col("id")) \
                + tab("k_modify_column", col("id") + col("x", "text", "false").replace("  }\n", '    default = "q"\n  }\n')) \
                + tab("k_add_index", col("id") + col("x", "text", "true") + '  index "i_add" {\n    columns = [column.x]\n  }\n') \
                + tab("k_drop_index", col("id") + col("x", "text", "true")) \
                + tab("k_modify_index", col("id") + col("x", "text", "true") + '  index "i_mod" {\n    unique = true\n    columns = [column.x]\n  }\n') \
                + tab("k_add_foreign_key", col("id") + col("p", "integer", "true") + fkb("fk_add")) \
                + tab("k_drop_foreign_key", col("id") + col("p", "integer", "true")) \
                + tab("k_modify_foreign_key", col("id") + col("p", "integer", "true") + fkb("fk_mod", "    on_delete = SET_NULL\n")) \
                + tab("k_add_table", col("id"))
            dfile = os.path.join(ws3.root, "d.hcl")
            open(dfile, "w").write(d3)
            kinds = ["add_column", "drop_column", "modify_column", "add_index", "drop_index", "modify_index", "add_foreign_key", "drop_foreign_key", "modify_foreign_key", "add_table", "drop_table"]

            def plan(policy):
                cfg = os.path.join(ws3.root, "atlas.hcl")
                skip = "  diff {\n    skip {\n      %s = true\n    }\n  }\n" % policy if policy else ""
                open(cfg, "w").write('env "dev" {\n  url = "%s"\n  src = "file://%s"\n%s}\n' % (ws3.url(), dfile, skip))
                rc, out, err = ws3.atlas("schema", "apply", "--env", "dev", "-c", "file://" + cfg, "--dry-run")
                return rc, out + err
            rc0, base = plan("")
            touched = lambda text: sorted(k for k in kinds if ("k_" + k) in text)
            if rc0 != 0 or touched(base) != sorted(kinds):
                raise vf.Infra("skip-kind scenario: the unrestricted plan does not touch every table: rc=%d %s\n%s" % (rc0, touched(base), base[-1500:]))
            bad = {}
            for k in kinds:
                rc, text = plan(k)
                want = sorted(x for x in kinds if x != k)
                if rc != 0 or touched(text) != want:
                    bad[k] = {"rc": rc, "tables_in_plan": touched(text), "expected": want, "out": text[-600:]}
            if bad:
                for k, det in bad.items():
                    v.violation({"part": "cli-skip-kind", "kind": k, "rebuild_forced": False}, det)
            else:
                ok += 1
        finally:
            ws3.close()
        # a skipped drop next to a change that makes SQLite re-create the table: the column / index must survive the rebuild
        n += 1
        ws2 = cli.WS()
        try:
            cli.sql(ws2.db, "CREATE TABLE secret (id integer NOT NULL, x text, y text); CREATE INDEX secret_x ON secret (x);")
            d2 = os.path.join(ws2.root, "d.hcl")
            open(d2, "w").write('schema "main" {\n}\ntable "secret" {\n  schema = schema.main\n  column "id" {\n    null = false\n    type = integer\n  }\n'
                                '  column "y" {\n    null = false\n    type = text\n    default = "q"\n  }\n}\n')
            cfg = os.path.join(ws2.root, "atlas.hcl")
            open(cfg, "w").write('env "dev" {\n  url = "%s"\n  src = "file://%s"\n  diff {\n    skip {\n      drop_column = true\n      drop_index = true\n    }\n  }\n}\n' % (ws2.url(), d2))
            rc, out, err = ws2.atlas("schema", "apply", "--env", "dev", "-c", "file://" + cfg, "--dry-run")
            lost = []
            if "new_secret" in out:
                create = out[out.index("CREATE TABLE `new_secret`"):].split(";")[0]
                if "`x`" not in create:
                    lost.append("column x is not part of the re-created table")
                if "secret_x" not in out[out.index("RENAME"):]:
                    lost.append("index secret_x is not re-created")
            if "DROP COLUMN" in out or "DROP INDEX" in out:
                lost.append("explicit drop")
            if rc != 0 or lost:
                v.violation({"part": "cli-skip", "policy": "drop_column = true, drop_index = true", "where": "env", "rebuild_forced": True}, {"rc": rc, "lost": lost, "out": (out + err)[-1200:]})
            else:
                ok += 1
        finally:
            ws2.close()
    finally:
        ws.close()
    return {"n": n, "ok": ok}
