#!/usr/bin/env python3
"""seedrun.py <patch> <check id>... : apply a seeded change to /repo, run the quick checks, undo. Prints rc + summary per check."""
import subprocess, sys, os, json, time
patch, checks = os.path.abspath(sys.argv[1]), sys.argv[2:]
tier = os.environ.get("SEED_TIER", "quick")
st = subprocess.run(["git", "-C", "/repo", "status", "--porcelain"], capture_output=True, text=True).stdout.strip()
if st:
    print("REFUSING: /repo is not clean:\n" + st); sys.exit(2)
subprocess.check_call(["git", "-C", "/repo", "apply", patch])
res = {}
try:
    for c in checks:
        t = time.time()
        p = subprocess.run(["./check", c, "--tier", tier], cwd="/verif", capture_output=True, text=True)
        lines = [l for l in p.stdout.split("\n") if l.startswith(("VIOLATION", "KNOWN", "DRIFT", "INFRA", "[C"))]
        print("== %s rc=%d (%.0fs)" % (c, p.returncode, time.time() - t))
        for l in lines[:6]:
            print("   " + l[:300])
        if p.returncode == 2:
            print(p.stdout[-1500:])
        res[c] = p.returncode
finally:
    subprocess.check_call(["git", "-C", "/repo", "checkout", "--", "."])
    subprocess.run(["git", "-C", "/repo", "clean", "-fdq", "--", "sql", "cmd", "schemahcl", "internal"])
print(json.dumps(res))
