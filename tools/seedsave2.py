#!/usr/bin/env python3
"""seedsave2.py <PID> <suffix> <mN> <dst mK> '<json: check -> note>' [ported.diff]: store a confirmed seeded change of a later round
(/tmp/seedwt/<PID><suffix>/_seed/<mN>.*) under /verif/seeded/<PID>-<mK>/"""
import json, os, shutil, sys
pid, suf, m, k, notes = sys.argv[1], sys.argv[2], sys.argv[3], sys.argv[4], json.loads(sys.argv[5])
ported = sys.argv[6] if len(sys.argv) > 6 else None
src = "/tmp/seedwt/%s%s/_seed" % (pid, suf)
dst = "/verif/seeded/%s-%s" % (pid, k)
shutil.rmtree(dst, ignore_errors=True); os.makedirs(dst)
if ported:
    shutil.copy(ported, dst + "/patch.diff")
    shutil.copy(src + "/%s.diff" % m, dst + "/patch.orig.diff")
else:
    shutil.copy(src + "/%s.diff" % m, dst + "/patch.diff")
shutil.copytree(src + "/%s_demo" % m, dst + "/demo")
j = json.load(open(src + "/%s.json" % m))
head = os.popen("git -C /repo rev-parse --short HEAD").read().strip()
meta = {"property": pid, "round": int(os.environ.get("SEED_ROUND", "2")), "summary": j.get("summary"), "needs": j.get("needs"), "why_tests_pass": j.get("why_tests_pass"), "files": j.get("files"),
        "origin": "fresh sub-agent (later round) given only the property text, the summaries of the earlier changes to avoid, and a scratch worktree of /repo",
        "confirmed": "in the scratch worktree: patch applies and builds, `go test ./sql/... ./schemahcl/...` and `cd cmd/atlas && go test ./...` pass with it, the demonstration fails with it and passes without it",
        "ported": "patch.diff is the same change re-expressed on the tree that contains a later fix: commit touching the same lines (patch.orig.diff = as delivered)" if ported else None,
        "checks_run": notes,
        "ran": "tools/seedrun.py <patch> <checks> (git apply to /repo at %s, ./check <id> --tier quick, git checkout -- .)" % head}
json.dump(meta, open(dst + "/meta.json", "w"), indent=1)
print("saved", dst)
