#!/usr/bin/env python3
"""Regenerates MANIFEST.json from the table below and validates it (python3-vt has jsonschema)."""
import json, os, subprocess, sys
HERE = os.path.dirname(os.path.dirname(os.path.abspath(__file__)))
ALL = ["C%02d" % i for i in range(1, 21)]

# id -> (category, technique, level text, level note, design ref)
CHECKS = {}

def claim(pid, category, technique, text, note, ref):
    CHECKS[pid] = dict(category=category, technique=technique, text=text, note=note, ref=ref)

exec(open(os.path.join(HERE, "tools", "claims.py")).read())

NOT_YET = "check not built yet in this session (design in DESIGN.md section 3); not claimed until its TLA+ specification and binding exist"
NA = {}
if os.path.exists(os.path.join(HERE, "tools", "na.json")):
    NA = json.load(open(os.path.join(HERE, "tools", "na.json")))

hook_commits = []
hc = os.path.join(HERE, "tools", "hook_commits.txt")
if os.path.exists(hc):
    hook_commits = [l.split()[0] for l in open(hc) if l.strip()]

# internal/integration's main package needs live MySQL / PostgreSQL servers (it fails in TestMain on the unchanged tree as well and none of its
# tests is part of the pinned suite): its offline parts are the hclsqlspec package and the SQLite tests
BASE_OFF = ("for m in . cmd/atlas; do (cd /repo/$m && GIT_CONFIG_GLOBAL=/dev/null GOFLAGS=-mod=mod GOPROXY=off "
            "go test -vet=off -count=1 -timeout 25m ./...) || exit 1; done; "
            "(cd /repo/internal/integration && GOFLAGS=-mod=mod GOPROXY=off go test -vet=off -count=1 ./hclsqlspec/... && "
            "GOFLAGS=-mod=mod GOPROXY=off go test -vet=off -count=1 -run TestSQLite .)")
m = {
    "version": 1,
    "setup_cmd": "./check --setup",
    "hooks": {"guard": "verif", "enable": "go build -tags verif (checks build /repo/cmd/atlas and the harness modules with -tags verif)",
              "baseline_off_cmd": BASE_OFF, "source_commits": hook_commits, "add_only": True},
    "engines": [
        {"name": "tlc", "path": "/opt/veriftools/tla/tla2tools.jar", "serves_properties": sorted(CHECKS), "kind_free_text": "TLA+ specifications under /verif/spec checked with TLC (exhaustive, simulation, enumeration and trace-validation configurations)"},
        {"name": "harness", "path": "/verif/harness", "serves_properties": sorted(CHECKS), "kind_free_text": "Go/Python binding layer: replays TLC-generated cases on the real code, records real executions as ndjson traces for TLC"},
    ],
    "checks": [],
    "notes": "One driver: ./check <id> --tier quick|thorough. Exit 0 held / 1 VIOLATION / 2 infrastructure. See DESIGN.md.",
    "not_applicable": [],
}
for pid in ALL:
    if pid in CHECKS:
        c = CHECKS[pid]
        m["checks"].append({
            "property_id": pid,
            "quick_cmd": "./check %s --tier quick" % pid,
            "thorough_cmd": "./check %s --tier thorough" % pid,
            "evidence_file": "/verif/evidence/%s.json" % pid,
            "replay_cmd_template": "./check %s --replay {path}" % pid,
            "engine": "tlc",
            "level_claimed": {"category": c["category"], "text": c["text"], "design_ref": c["ref"]},
            "level_note": c["note"],
            "technique": c["technique"],
        })
    else:
        m["not_applicable"].append({"property_id": pid, "reason": NA.get(pid, NOT_YET)})
json.dump(m, open(os.path.join(HERE, "MANIFEST.json"), "w"), indent=1)
code = ("import json,jsonschema;jsonschema.validate(json.load(open('%s/MANIFEST.json')),json.load(open('/root/.vp/MANIFEST.schema.json')));print('MANIFEST ok, %d checks')" % (HERE, len(m["checks"])))
sys.exit(subprocess.call(["python3-vt", "-c", code]))
