#!/usr/bin/env python3
"""seedprep.py <PID> [suffix]: create a scratch worktree /tmp/seedwt/<PID><suffix> of /repo's HEAD and print the sub-agent prompt
(property text only + the summaries of changes already tried, so that the new ones differ)."""
import json, os, subprocess, sys, glob
pid = sys.argv[1]; suf = sys.argv[2] if len(sys.argv) > 2 else "r2"
wt = "/tmp/seedwt/%s%s" % (pid, suf)
os.makedirs("/tmp/seedwt", exist_ok=True)
if not os.path.exists(wt):
    subprocess.check_call(["git", "-C", "/repo", "worktree", "add", "--detach", "-q", wt, "HEAD"])
prop = next(json.loads(l) for l in open("/verif/properties.jsonl") if json.loads(l)["id"] == pid)
tmpl = open("/verif/tools/SEEDPROMPT.tmpl").read()
tried = []
for d in sorted(glob.glob("/verif/seeded/%s-m*" % pid)):
    m = json.load(open(d + "/meta.json"))
    tried.append("  - " + (m.get("summary") or "")[:700])
p = (tmpl.replace("@WT@", wt).replace("@ID@", pid + suf).replace("@TITLE@", prop["title"]).replace("@STATEMENT@", prop["statement"])
     .replace("@QUANT@", prop["quantifier"]["text"]).replace("@FILES@", ", ".join(prop["anchors"]["files"])))
if tried:
    p += ("\n\nMutations that were ALREADY produced for this property in an earlier round (do NOT repeat them; choose a different function, "
          "mechanism or input dimension of the property):\n" + "\n".join(tried) + "\n")
print(p)
