#!/usr/bin/env python3-vt
import json, sys, glob, jsonschema
s = json.load(open('/root/.vp/EVIDENCE.schema.json'))
bad = 0
for p in sys.argv[1:] or glob.glob('/verif/evidence/*.json'):
    try:
        jsonschema.validate(json.load(open(p)), s); print('ok', p)
    except Exception as e:
        bad += 1; print('INVALID', p, str(e)[:300])
sys.exit(1 if bad else 0)
