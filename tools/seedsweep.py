#!/usr/bin/env python3
"""seedsweep.py [ids...]: run every seeded change under /verif/seeded against the quick check of its own property (plus the checks named in
EXTRA) and write seeded/RESULTS.json. /repo must be clean; each patch is applied, checked and reverted."""
import json, os, subprocess, sys, time
EXTRA = {"C01-m8": ["C03"], "C13-m7": ["C09"], "C01-m5": ["C02"], "C01-m6": ["C02"], "C01-m4": ["C03"], "C02-m4": ["C03"], "C10-m3": ["C09"], "C03-m1": ["C01"], "C10-m2": ["C11"], "C05-m2": ["C01"], "C09-m1": ["C12"], "C10-m1": ["C09"]}
root = "/verif/seeded"
ids = sys.argv[1:] or sorted(d for d in os.listdir(root) if os.path.isdir(os.path.join(root, d)))
resp = os.path.join(root, "RESULTS.json")
res = json.load(open(resp)) if os.path.exists(resp) else {}
for sid in ids:
    if not sys.argv[1:] and sid in res and "error" not in res[sid]:
        continue          # resume: already swept
    pid = sid.split("-")[0]
    patch = os.path.join(root, sid, "patch.diff")
    st = subprocess.run(["git", "-C", "/repo", "status", "--porcelain"], capture_output=True, text=True).stdout.strip()
    if st:
        print("REFUSING: /repo is not clean:\n" + st); sys.exit(2)
    ap = subprocess.run(["git", "-C", "/repo", "apply", patch], capture_output=True, text=True)
    if ap.returncode != 0:
        res[sid] = {"error": "patch does not apply: " + ap.stderr[-300:]}
        subprocess.run(["git", "-C", "/repo", "reset", "-q", "--hard", "HEAD"]); continue
    out = {}
    try:
        for c in [pid] + EXTRA.get(sid, []):
            t = time.time()
            p = subprocess.run(["./check", c, "--tier", "quick"], cwd="/verif", capture_output=True, text=True)
            nv = sum(1 for l in p.stdout.split("\n") if l.startswith("VIOLATION"))
            out[c] = {"exit": p.returncode, "violation_lines": nv, "wall_s": round(time.time() - t)}
            print(sid, c, out[c], flush=True)
    finally:
        subprocess.check_call(["git", "-C", "/repo", "checkout", "--", "."])
        subprocess.run(["git", "-C", "/repo", "clean", "-fdq", "--", "sql", "cmd", "schemahcl", "internal"])
    res[sid] = out
    json.dump(res, open(resp, "w"), indent=1, sort_keys=True)
print("done")
