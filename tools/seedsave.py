#!/usr/bin/env python3
"""seedsave.py <PID> <mN> '<json: check -> note>' : store a confirmed seeded change under /verif/seeded/<PID>-<mN>/"""
import json, os, shutil, sys
pid, m, notes = sys.argv[1], sys.argv[2], json.loads(sys.argv[3])
src = "/tmp/seedwt/%s/_seed" % pid
dst = "/verif/seeded/%s-%s" % (pid, m)
shutil.rmtree(dst, ignore_errors=True); os.makedirs(dst)
shutil.copy(src + "/%s.diff" % m, dst + "/patch.diff")
shutil.copytree(src + "/%s_demo" % m, dst + "/demo")
j = json.load(open(src + "/%s.json" % m))
head = os.popen("git -C /repo rev-parse --short HEAD").read().strip()
meta = {"property": pid, "summary": j.get("summary"), "needs": j.get("needs"), "why_tests_pass": j.get("why_tests_pass"), "files": j.get("files"),
        "origin": "fresh sub-agent given only the property text and a scratch worktree of /repo at " + head,
        "confirmed": "tools/seed_verify.sh in the scratch worktree: patch applies and builds (root + cmd/atlas), `go test ./sql/... ./schemahcl/...` and `cd cmd/atlas && go test ./...` pass with it, the demonstration test fails with it and passes without it",
        "checks_run": notes,
        "ran": "tools/seedrun.py <patch> <checks> (git apply to /repo, ./check <id> --tier quick, git checkout -- .)"}
json.dump(meta, open(dst + "/meta.json", "w"), indent=1)
print("saved", dst)
