import sys,json,subprocess,os,collections,time; sys.path.insert(0,'/verif/lib')
import vf
def run(seeds=("Seed1","Seed2","Seed3","Seed4")):
    b=vf.build_harness("cli","engine")
    jobs=[dict(module="SqliteModelMC",cfg="SqliteModelMC.cfg",defines={"Seed":s,"Two":"FALSE"},heap="8g",timeout=600,keep=True) for s in seeds]
    rs=vf.tlc_many(jobs,parallel=4)
    d=vf.scratch("eng")
    with open(d+"/pairs.ndjson","w") as fo:
        for r in rs:
            fo.write(open(r.dir+"/pairs.ndjson").read()); vf.rm(r.dir)
    p=subprocess.run([b,d+"/pairs.ndjson",d+"/o.ndjson","16"],capture_output=True,text=True,env=dict(os.environ,VERIF_SCRATCH=d)); print(p.stdout[:800],p.stderr[-1500:])
    viols,ev,st=vf.monitor_trace("EngineTrace","EngineTrace.cfg",d+"/o.ndjson",max_events=300)
    full=[json.loads(x) for x in open(d+"/o.ndjson.full").read().split("\n") if x]
    vf.rm(d)
    return viols,full
def diffstate(a,b):
    out=[]
    for t in a:
        if json.dumps(a[t],sort_keys=True)!=json.dumps(b.get(t),sort_keys=True):
            for k in a[t]:
                if json.dumps(a[t][k],sort_keys=True)!=json.dumps((b.get(t) or {}).get(k),sort_keys=True): out.append((t,k,a[t][k],(b.get(t) or {}).get(k)))
    return out
