#!/usr/bin/env python3
"""mkseedtable.py: write seeded/README.md - one row per seeded change: what it changes, which checks were run against it (last sweep,
seeded/RESULTS.json) and the history recorded when it was first tried (meta.json checks_run)."""
import json, os, glob
root = "/verif/seeded"
res = json.load(open(os.path.join(root, "RESULTS.json"))) if os.path.exists(os.path.join(root, "RESULTS.json")) else {}
rows = []
caught_own = caught_sib = missed = 0
for d in sorted(glob.glob(root + "/C*-m*")):
    sid = os.path.basename(d)
    m = json.load(open(d + "/meta.json"))
    pid = sid.split("-")[0]
    r = res.get(sid, {})
    own = r.get(pid, {}).get("exit")
    sib = [c for c, x in r.items() if c != pid and isinstance(x, dict) and x.get("exit") == 1]
    if own == 1:
        verdict = "caught by %s" % pid; caught_own += 1
    elif sib:
        verdict = "missed by %s, caught by %s" % (pid, ", ".join(sib)); caught_sib += 1
    elif own is None:
        verdict = "not in the last sweep"
    else:
        verdict = "MISSED"; missed += 1
    first = "; ".join("%s: %s" % (c, n) for c, n in (m.get("checks_run") or {}).items())
    summ = (m.get("summary") or "").replace("\n", " ").replace("|", "\\|")
    rows.append("| %s | %s | %s | %s | %s |" % (sid, m.get("round", 1), summ[:260] + ("..." if len(summ) > 260 else ""), verdict, first.replace("|", "\\|")[:420]))
out = ["# Seeded changes", "",
       "Each directory holds `patch.diff` (applies to /repo's HEAD), `demo/` (the sub-agent's demonstration) and `meta.json`. None is ever committed in /repo.",
       "Last sweep (`tools/seedsweep.py`, quick tier): %d caught by the property's own check, %d only by a sibling check, %d missed, of %d." % (caught_own, caught_sib, missed, len(rows)), "",
       "| id | round | change | last sweep | history (when first tried) |", "|----|-------|--------|------------|----------------------------|"] + rows
open(os.path.join(root, "README.md"), "w").write("\n".join(out) + "\n")
print("caught_own=%d caught_sibling=%d missed=%d total=%d" % (caught_own, caught_sib, missed, len(rows)))
