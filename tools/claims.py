# claim(id, category, technique, level text, level note, design ref) -- read by mkmanifest.py
claim("C11", "model_checking",
      "TLA+ reference (Pending.tla) evaluated by TLC over every case, compared with Executor.Pending; MigrateOps.tla histories replayed on the CLI",
      "TLC evaluates the documented pending-file semantics (Pending.tla) on every directory x revision-table x option case over 5 (thorough: 6) versions and checks the "
      "decision's well-formedness; the real Executor.Pending must return the same decision class and file list on all of them. MigrateOps.tla is model-checked and its "
      "simulated operation histories are replayed on the real CLI with SQLite, comparing status/revisions/journal after every operation.",
      "Trusted: the reference was written from documentation; equal-width versions; SHA-256 injective; the harness's in-memory revision store and the independent SQLite reader.",
      "3 C11")
claim("C09", "model_checking",
      "TLA+ model of Executor.Execute (Apply.tla) checked exhaustively by TLC; every fault plan replayed on the real Executor and its call trace validated by TLC (ApplyMonitor.tla property layer, ApplyTrace.tla conformance layer)",
      "TLC checks RevNotAhead / InOrder / NoSkip / RepeatBound / ExactlyOnce / CleanRunCompletes on every state of Apply.tla for all directory shapes up to 3x3 with up to 2 (thorough: 3) "
      "faults at any ExecContext or WriteRevision call. The same space is enumerated on the real Executor.ExecuteN with scripted stores; TLC evaluates the property formulas after every "
      "recorded call (verdict) and checks that each execution is a behaviour of Apply.tla (conformance).",
      "Trusted: the scripted Driver/RevisionReadWriter doubles (journal append, revision upsert); SHA-256 injective; bounds as stated in the evidence file.",
      "3 C09")
claim("C12", "model_checking",
      "Apply.tla with environment Edit actions checked by TLC; every (length<=5, progress k, edit kind, index) scenario replayed on the real Executor and on the CLI/SQLite, traces validated by TLC",
      "TLC checks Refusal / NoSpuriousRefusal / CleanRunCompletes on Apply.tla with every edit of a partially applied file between runs. The harness enumerates the same scenarios on the real "
      "Executor (and the real CLI on SQLite with --tx-mode none); ApplyMonitor.tla decides refusal without any statement and with untouched history, no crash, and tail resume with a completed revision.",
      "Trusted: scripted stores at API level, the independent SQLite reader at CLI level; the directory is re-hashed after each edit; SHA-256 injective.",
      "3 C12")
claim("C13", "model_checking",
      "TLA+ model of the migrate-apply transaction multiplexer (ApplyTx.tla) checked exhaustively by TLC; every configuration run on the real CLI/SQLite and the recorded run validated by TLC against ApplyTxMonitor.tla",
      "TLC checks FailState / FileAtomic / RevNotAhead / NoSpuriousError / DryRunNoChange and the liveness property Recovery on ApplyTx.tla for all modes x per-file directives x shapes x failing "
      "positions x count x dry-run. The same configurations are executed with the real binary on SQLite files; after every command an independent client reads the database and TLC evaluates the "
      "formulas of C13 (state after failure per mode, success state, fix-and-rerun, dry-run byte identity) on the recorded run. `schema apply` atomicity is exercised by checks/c13schema.py.",
      "Trusted: SQLite, python's sqlite3 reader, statements are journal INSERTs (the failing one targets a missing table). Bounds in the evidence file.",
      "3 C13")
claim("C10", "model_checking",
      "ApplyTx.tla with a Crash action at every control point checked by TLC (safety + Recovery liveness); real CLI killed by SIGKILL at every hook point x occurrence, disk read independently, rerun, runs validated by TLC (ApplyTxMonitor.tla)",
      "TLC explores every crash point of the model (1 crash quick, 2 thorough) and proves FileAtomic / RevNotAhead / AtMostOnceTx / RepeatBoundNone and Recovery under weak fairness. The harness kills the "
      "real binary (build tag verif) at every instrumented point and occurrence for every mode x shape x directive placement, reads the SQLite file with an independent client, re-runs the command and lets TLC "
      "evaluate the C10 formulas on each recorded experiment.",
      "Trusted: SIGKILL models the crash (no torn pages / power loss); SQLite durability; the hook points of commit 377f5cc are the linearisation points; private TMPDIR so the stale advisory lock expires.",
      "3 C10")
claim("C06", "model_checking",
      "TLA+ model of the migration directory and its sum file (DirSum.tla) checked by TLC; all bounded behaviours replayed on a real LocalDir; byte-neighbourhood observations validated by TLC against the reference outcome (DirSumTrace.tla)",
      "TLC checks WritersValid / TamperDetected / NeutralKeeps on every behaviour of DirSum.tla up to depth 5 (6 thorough) and exports every behaviour of depth 3 (4) with the expected Validate outcome after "
      "each step; all are replayed on a real LocalDir (writers through Planner.WritePlan / WriteSumFile, MemDir copies). In the other direction every single-byte edit (flip/delete/insert, one-byte moves in "
      "atlas.sum, file add/remove/rename) of small concrete directories is abstracted by independent parsers and TLC evaluates the reference outcome on it. CLI writers (hash/new/diff/import) are checked to leave a valid directory.",
      "Trusted: SHA-256 injective; the harness's parsers of atlas.sum and of the `atlas:sum ignore` rule; ignored-file contents and trailing ignored files are documented blind spots.",
      "3 C06")
claim("C04", "model_checking",
      "TLA+ catalogue model (PlanCatalog.tla) checked by TLC; plans of the MySQL/PostgreSQL planners for every FK digraph scenario tokenised into events and consumed by TLC (PlanCatalogTrace.tla)",
      "TLC explores every statement sequence of PlanCatalog.tla up to 6 (7) statements over 3 tables (FKTargetsExist, Once). The harness plans, with mysql.DefaultPlan and postgres.DefaultPlan, every directed "
      "FK graph with self loops over <= 3 tables x every created/dropped/kept-and-modified split, 4-table graphs for create-all/drop-all (all 65,536 in the thorough tier, a seeded 5% sample in quick) and random 5..8-table "
      "graphs, and every ordered pair of 27 definitions (referenced table x ON UPDATE x ON DELETE) of one foreign key modified in place; each statement becomes a catalogue event and TLC must be able to consume the plan "
      "(parent exists, constraint name free, index with a key part, MySQL refuses to drop a column a live foreign key uses, PostgreSQL drops the key with it) and end in the wanted catalogue with every table created/dropped at most once. Planner errors, panics and timeouts are violations.",
      "Trusted: the SQL tokeniser of the harness; engine acceptance rules as written in PlanCatalog.tla.",
      "3 C04")
claim("C16", "model_checking",
      "PlanCatalogTrace.tla qualifier guard evaluated by TLC over tokenised forward and reverse statements of scoped plans (change-kind catalogue x qualifier x dialect) and over the FK-graph scenarios",
      "For a catalogue of change kinds (tables, enum columns, indexes, comments, checks, foreign keys, drops, modifications, renames, combinations) x {empty, custom} qualifier x {MySQL, PostgreSQL}, every planned and reverse "
      "statement is tokenised and TLC checks that exactly the requested qualifier is used at every reference, that the schema's own name is never mentioned, that no schema-level statement is planned and that cross-schema / "
      "schema-level change sets are refused. All <=3-table FK-graph scenarios are re-planned with both qualifier settings.",
      "Trusted: the tokeniser's notion of a reference position; deferred plan mode only.",
      "3 C16")
claim("C08", "model_checking",
      "function-style TLA+ reference scanner (Lexer.tla) checked by TLC on every input up to length 4 (5); its predictions compared with migrate.Scanner; observations of real scans validated by TLC against ScanTrace.tla",
      "TLC evaluates Lexer.tla on every input over a 14-symbol alphabet up to length 4 (5 thorough) x 2 option sets and checks the ordered-partition property; the predicted statement lists are compared with the real "
      "scanner. Every string over a 14-character alphabet up to length 4 (5), grammar-generated inputs (dollar quotes, BEGIN/END, ATOMIC, TRY/CATCH, DELIMITER commands, atlas:delimiter headers, GO batches, multi-byte runes) "
      "and random bytes are scanned under the option sets of migrate.Stmts and of the three drivers; TLC evaluates Total / InRange / Increasing / TextAtPos / Lossless on each observation.",
      "Trusted: the harness's gap classifier and rendering of symbols; verdict domain is the four option sets community drivers use (others reported only).",
      "3 C08")
claim("C07", "model_checking",
      "QuoteSafety proved by TLC on Lexer.tla for every content up to length 4 (5); PlanFile.tla round-trip property; TLC-exported hostile contents driven through HCL -> planner -> six formatters -> directory readers -> driver scanner and validated by PlanFileTrace.tla; CLI import",
      "TLC checks on Lexer.tla that a literal/identifier quoted by the discipline is opaque to the scanner for every hostile content up to length 4 (5 thorough) x 3 quote kinds x 2 option sets, and on PlanFile.tla that "
      "reading a formatted plan gives back its commands (and, for formats with a down section, the reversed reverse statements). The quantifier domain (contents up to length 2, 3 thorough) is exported by TLC and instantiated at every "
      "position where a user value enters Atlas, for MySQL, PostgreSQL and SQLite, through the real HCL evaluation, planners, six formatters (+indent, +custom delimiter), directory readers and driver scanners; TLC compares the "
      "read-back statement ids with the planned ones. `migrate import` from five third-party formats must preserve the statement sequence.",
      "Trusted: the harness's rendering of symbols and HCL escaping; inputs refused by the HCL layer are outside the domain. Five classes of genuine violations are recorded as known findings (see known_findings.json).",
      "3 C07")
claim("C02", "model_checking",
      "TLA+ schema algebra (SchemaModel.tla): TLC verifies the reference DiffSpec exact (complete and minimal) on every exported pair and exports the expected change sets; the three dialect differs are compared with them",
      "TLC proves Exact(S,R) (applying DiffSpec gives R; removing any change does not) and DiffSpec(S,S) = {} for every pair in the edit neighbourhood of the seed catalogues (about 15,000 pairs quick; single edits from 413 states plus all "
      "two-edit pairs thorough) and exports each pair with its expected change set. Every pair is instantiated for MySQL, PostgreSQL and SQLite and diffed by the real DefaultDiff in the CLI's normalized mode: the change multiset and "
      "the kind flags must match, also with permuted declaration order; self / copy / permuted-copy diffs must be empty.",
      "Trusted: the binding of opaque type/default/expression ids to concrete values; the model's feature set bounds what 'every elementary edit' means here.",
      "3 C02")
claim("C01", "model_checking",
      "SQLite-specific TLA+ catalogue (SqliteModel.tla): TLC enumerates well-formed (current, desired) pairs over C01's feature list; each is executed on a real SQLite engine through Atlas's driver and TLC evaluates convergence on the independent projection (EngineTrace.tla)",
      "TLC exports every admissible single edit to and from four seed catalogues (autoincrement, composite and reordered keys, WITHOUT ROWID, STRICT, stored / virtual generated columns, unique / multi-column / descending / partial "
      "indexes, named / unnamed checks, self / cross foreign keys with all five actions; about 2,000 pairs). For each pair the harness creates the current state on a real SQLite file with its own DDL renderer, re-projects it as a "
      "self-check, populates it, lets Atlas inspect / diff (normalized) / plan, executes the plan and projects the result with pragmas only; TLC requires after = desired, no failing statement and an empty second diff. A CLI slice repeats "
      "the flow through `schema apply` / `schema diff` with HCL. Without an engine, for MySQL and PostgreSQL: every ordered pair of 24 definitions of one column and of 17 definitions of one index or unique constraint, and columns dropped together with the indexes that use them, go through the dialect's "
      "differ and planner, and the clauses of the statements, interpreted by ColCatalog.tla (ColCatalogTrace.tla), must end in the desired columns and indexes.",
      "Trusted: the harness's DDL renderer and pragma projection (self-checked on every start state); SQLite 3.46 of mattn/go-sqlite3; bounded feature grid (2 tables, 3 columns).",
      "3 C01")
claim("C05", "exploration",
      "row semantics of the edit catalogue in SqliteModel.tla; rows of populated SQLite databases read before/after Atlas's plan and compared by TLC (EngineTrace.tla RowsOK)",
      "For every (current, desired) pair of the C01 corpus the current database is populated (3 rows per table, distinct values, NULLs in nullable columns, valid foreign keys); rows are read with quote() before and after Atlas's plan; TLC "
      "checks per table that the bag of rows projected on the surviving columns (stored, same name and type) is unchanged, with NULL -> default as the only rewrite when a column becomes NOT NULL. Both the in-place and the rebuild path occur.",
      "Exploration level: the data grid is one population per state; values compared through quote().",
      "3 C05")
claim("C17", "exploration",
      "up-then-down on a real SQLite engine for every reversible plan of the C01 corpus (EngineTrace.tla UndoRestores), down-file / Reversible-flag consistency through all formatters (PlanFileTrace.tla), catalogue-level up/down for MySQL / PostgreSQL (PlanCatalogTrace.tla: tables, foreign keys with their actions, checks; ColCatalog.tla / ColCatalogTrace.tla: columns and indexes of a table)",
      "When Plan.Reversible holds the reverse statements of the changes are executed in reverse order on the real SQLite file and the independent projection must equal the start state. For the three dialects and six formatters the down section must "
      "be exactly the flattened reversed reverse statements and Reversible must equal 'every change has reverse statements'. MySQL / PostgreSQL up+down statement lists of all FK-graph scenarios over <= 3 tables, of CHECK change lists and of a foreign key / a column / an index modified in place (every ordered pair of 27 / 24 / 13 definitions) "
      "are replayed through the catalogue models, which must arrive back at the start; TLC also checks on ColCatalog.tla that a dropped generation expression never comes back while the column stays (why such a plan must not be reported reversible).",
      "MySQL / PostgreSQL only at catalogue level (no engine); rows are not compared after a down migration.",
      "3 C17")
claim("C03", "exploration",
      "exports as observation steps of SqliteModel.tla; every state created on a real SQLite engine in two DDL spellings, exported by Atlas (HCL and SQL), evaluated / re-created on fresh engines; TLC evaluates ExportTrace.tla on every observation; a sample through the real CLI",
      "Every distinct catalogue state of the C01 corpus (about 6,900 state/spelling combinations) is created on a real SQLite file, inspected, exported as HCL and as the SQL creation script; the HCL is evaluated and diffed against the "
      "inspection in both directions (must be empty), both exports are re-created on fresh engines and projected independently (must equal the original), two inspections must be byte-identical. Every 60th (6th thorough) state repeats "
      "this through the real CLI (`schema inspect`, `{{ sql . }}`, `schema diff`, `schema apply`).",
      "SQLite only; inline UNIQUE and a named unique index over the same columns are identified; the harness's projection is trusted (self-checked against the model state).",
      "3 C03")
claim("C14", "model_checking",
      "TLA+ model of the dev-database protocol (DevDB.tla) checked by TLC; every --dev-url command run on the real CLI for every dev-database state x failing replay position, observations validated by TLC (DevDBMonitor.tla)",
      "TLC checks Untouched / HandedBackEmpty / RefusedIfDirty / NoWriteBeforeCheck / DirOnlyByDiff on every behaviour of DevDB.tla (any command, any failing statement). The real CLI runs migrate diff / validate / lint and schema apply / diff "
      "(SQL and HCL sources) against directories whose k-th statement is invalid for every k (tables, indexes, views, triggers, drops in several orders) with the dev database absent, empty, holding one table, two tables, or only a view; the dev "
      "database (sqlite_master + full dump) and the directory bytes are compared before and after and TLC evaluates the formulas on each invocation.",
      "Trusted: python's sqlite3 reader; SQLite dev databases only; HCL-only sources owe non-interference only on SQLite.",
      "3 C14")
claim("C19", "model_checking",
      "TLA+ reference of the exclude-pattern semantics (Exclude.tla) and of the diff policy (SchemaModel.tla DiffSpecSkip) evaluated by TLC; expectations compared with schema.ExcludeRealm and with the three differs under DiffSkipChanges; end-to-end CLI on SQLite",
      "TLC evaluates the glob reference (cross-checked against a second formulation) on 630 patterns and 66 two-pattern sets over a realm of 2 schemas x 3 tables with columns, indexes, a check and a foreign key, and verifies SkipSound on the model; "
      "schema.ExcludeRealm must remove exactly the excluded resources; the three dialect differs, given each single skippable kind (and all drop kinds together), must produce exactly DiffSpecSkip for every pair of the C02 corpus; `schema apply --exclude` "
      "and `schema apply --env` with diff.skip on SQLite must never mention an excluded table or plan a skipped kind.",
      "Trusted: pattern rendering; skippable kinds = those of cmdapi.SkipChanges produced by the model.",
      "3 C19")
claim("C18", "exploration",
      "TLA+ model of directory histories with per-statement life-span bookkeeping (LintModel.tla, classes checked by TLC), TLC-simulated histories rendered as SQL (DROP / ALTER .. DROP COLUMN / rebuild) and planned by `migrate diff`; the real `migrate lint` observations validated by TLC (LintMonitor.tla)",
      "TLC exhausts the model (2 / 3 files x 2 statements) for consistency of the classes Destructive / PureAdditive / TempOnly and simulates 120 (1500, thorough) histories of up to 3 files x 3 statements over two tables with optional and VIRTUAL "
      "columns. Each history becomes a hand-written directory (all three spellings of a column drop) and a directory planned file-by-file by `atlas migrate diff`; `migrate lint --latest N` runs for every window N against an in-memory SQLite dev database; "
      "the monitor requires, per file in the window: destructive => DS102/DS103 on a causing statement and a failing exit; additive or temp-only => no destructive diagnostic.",
      "Exploration level: random histories; files neither destructive nor additive/temp-only are unconstrained. Trusted: position -> statement mapping, SQLite dev database.",
      "3 C18")
claim("C20", "exploration",
      "Outputs as a function of (operation, input) (Observe.tla); repeated, multi-process, concurrent (-race) and permuted executions of plan / format / hash / MarshalHCL / Dir.Checksum and of the CLI recorded as observations and validated by TLC",
      "The determ harness enumerates foreign-key graphs over 3 tables x roles (created / dropped / kept) plus random graphs over 5-8 tables for MySQL, PostgreSQL and SQLite, and all subsets of a file-name catalogue with equal version prefixes; "
      "every input is executed 3 times sequentially, in 2 (5, thorough) further processes, 2 times over an 8-goroutine worker pool next to unrelated inputs, again under the race detector, with up to 3 permutations of the top-level HCL blocks "
      "and with permuted MemDir insertion orders and a LocalDir copy; the CLI repeats `migrate diff` (original and permuted documents), `schema inspect`, `migrate hash` / `validate` in fresh processes. TLC requires identical digests inside each "
      "(op, input) group, and for permuted sources the same statement multiset and the same resulting schema.",
      "Exploration level: inputs are enumerated / sampled, executions are finitely many (a map-order dependence with k alternatives escapes n executions with probability k^-(n-1) per input). Trusted: digests; block-level permutation.",
      "3 C20")
claim("C15", "exploration",
      "HCL round trip as an observation step of SchemaModel.tla, parametric in the type ids; registry-wide FormatType/ParseType fixpoint and MarshalHCL/EvalHCL round trips validated by TLC (HCLTrace.tla)",
      "For MySQL, PostgreSQL and SQLite every registered type spec x parameter grid is formatted, parsed and re-formatted (fixpoint) and round-tripped in a one-column table; the instances are rotated into the opaque types of 400 (all, thorough) "
      "model states, each marshalled to HCL, evaluated and diffed both ways, then re-marshalled (byte-identical); attribute showcase documents per dialect cover charset / collation / comment / auto_increment / identity / generated / on_update / "
      "index types / prefix / desc / include / where / operator classes / nulls ordering.",
      "Exploration level: the catalogue comes from the Go registry; the specification contributes structure and equalities.",
      "3 C15")
