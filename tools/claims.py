# claim(id, category, technique, level text, level note, design ref) -- read by mkmanifest.py
claim("C11", "model_checking",
      "TLA+ reference (Pending.tla) evaluated by TLC over every case, compared with Executor.Pending; MigrateOps.tla histories replayed on the CLI",
      "TLC evaluates the documented pending-file semantics (Pending.tla) on every directory x revision-table x option case over 5 (thorough: 6) versions and checks the "
      "decision's well-formedness; the real Executor.Pending must return the same decision class and file list on all of them. MigrateOps.tla is model-checked and its "
      "simulated operation histories are replayed on the real CLI with SQLite, comparing status/revisions/journal after every operation.",
      "Trusted: the reference was written from documentation; equal-width versions; SHA-256 injective; the harness's in-memory revision store and the independent SQLite reader.",
      "3 C11")
