#!/bin/bash
# usage: seed_verify.sh <worktree> <patch> <demo-src-file> <demo-dst-relpath> <demo-cmd-dir-rel> <demo test regex> [fulltests]
# Confirms in a scratch worktree: patch applies + compiles, existing tests pass with it, demo fails with it and passes without it.
set -u
WT=$1; PATCH=$2; DSRC=$3; DDST=$4; DDIR=$5; DRE=$6; FULL=${7:-yes}
export GOFLAGS=-mod=mod GOPROXY=off GIT_CONFIG_GLOBAL=/dev/null
cd $WT || exit 2
git checkout -q -- . ; git apply --check $PATCH || { echo "PATCH DOES NOT APPLY"; exit 2; }
git apply $PATCH
echo "== build"; (go build ./... && cd cmd/atlas && go build ./...) || { echo BUILD-FAIL; git checkout -q -- .; exit 1; }
if [ "$FULL" = yes ]; then
  echo "== existing tests with mutation"
  (go test -vet=off -count=1 ./sql/... ./schemahcl/... 2>&1 | grep -v "^ok\|no test files" | head -20)
  (cd cmd/atlas && go test -vet=off -count=1 ./... 2>&1 | grep -v "^ok\|no test files" | head -20)
fi
echo "== demo WITH mutation (expect FAIL)"
cp $DSRC $DDST
(cd $DDIR && go test -vet=off -count=1 -run "$DRE" . 2>&1 | tail -3)
git checkout -q -- .
echo "== demo WITHOUT mutation (expect ok)"
(cd $DDIR && go test -vet=off -count=1 -run "$DRE" . 2>&1 | tail -3)
rm -f $DDST
git status --short | grep -v _seed | head
