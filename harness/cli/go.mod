module verif/cli

go 1.22.12

require (
	ariga.io/atlas v0.0.0
	github.com/mattn/go-sqlite3 v1.14.24
)

require (
	github.com/agext/levenshtein v1.2.1 // indirect
	github.com/apparentlymart/go-textseg/v13 v13.0.0 // indirect
	github.com/apparentlymart/go-textseg/v15 v15.0.0 // indirect
	github.com/bmatcuk/doublestar v1.3.4 // indirect
	github.com/go-openapi/inflect v0.19.0 // indirect
	github.com/google/go-cmp v0.6.0 // indirect
	github.com/hashicorp/hcl/v2 v2.13.0 // indirect
	github.com/mitchellh/go-wordwrap v0.0.0-20150314170334-ad45545899c7 // indirect
	github.com/zclconf/go-cty v1.14.4 // indirect
	github.com/zclconf/go-cty-yaml v1.1.0 // indirect
	golang.org/x/text v0.21.0 // indirect
)

replace ariga.io/atlas => /repo
