// engine: drives Atlas's SQLite driver on a real SQLite engine for every (from, to) pair exported from SqliteModel.tla and records
// one observation per pair for EngineTrace.tla (C01 converge, C05 rows, C17 undo).
//
//	engine <pairs.ndjson> <out.ndjson> <workers>
package main

import (
	"bufio"
	"context"
	"database/sql"
	"encoding/json"
	"fmt"
	"os"
	"os/exec"
	"path/filepath"
	"sort"
	"strings"
	"sync"

	"ariga.io/atlas/sql/migrate"
	"ariga.io/atlas/sql/schema"
	"ariga.io/atlas/sql/sqlite"
	_ "github.com/mattn/go-sqlite3"
	"verif/cli/sq"
)

type pair struct {
	From sq.State `json:"from"`
	To   sq.State `json:"to"`
}

type row map[string]string

type obs struct {
	ID         int              `json:"id"`
	From       sq.State         `json:"from"`
	To         sq.State         `json:"to"`
	After      sq.State         `json:"after"`
	Undone     sq.State         `json:"undone"`
	Skipped    string           `json:"skipped"` // the harness could not create the start state (not Atlas's fault)
	Err        string           `json:"err"`
	Second     int              `json:"second"`
	Reversible bool             `json:"reversible"`
	DownErr    string           `json:"downerr"`
	Before     map[string][]row `json:"rows_before"`
	Rows       map[string][]row `json:"rows_after"`
	Stmts      []string         `json:"stmts,omitempty"`
	Down       []string         `json:"down,omitempty"`
	Second2    []string         `json:"second_changes,omitempty"`
	MustRefuse bool             `json:"mustrefuse"`
}

func value(k int, col string, c sq.Col) string {
	ci := map[string]int{"a": 1, "b": 2, "c": 3}[col]
	if c.Type == "INT" {
		return fmt.Sprint(k*10 + ci)
	}
	return fmt.Sprintf("'r%d%s'", k, col)
}

// also (optional): a second state whose foreign-key columns get referencing values too (the CLI verifies foreign keys after applying).
func populate(db *sql.DB, st sq.State, also ...sq.State) error {
	if _, err := db.Exec("PRAGMA foreign_keys = off"); err != nil {
		return err
	}
	defer db.Exec("PRAGMA foreign_keys = on")
	for _, tn := range sq.TableNames {
		t := st[tn]
		if !t.Present() {
			continue
		}
		fkcol := map[string]bool{}
		for _, g := range t.Fks {
			fkcol[g.Col] = true
		}
		for _, o := range also {
			for _, g := range o[tn].Fks {
				if c, ok := t.Cols[g.Col]; ok && c.Type == "INT" {
					fkcol[g.Col] = true
				}
			}
		}
		for k := 1; k <= 3; k++ {
			var cols, vals []string
			for _, cn := range t.ColList() {
				c := t.Cols[cn]
				if c.Gen != "" {
					continue
				}
				cols = append(cols, cn)
				switch {
				case fkcol[cn]:
					// the referenced key column is always "a" of the parent: its value in row k
					if c.Null && k == 3 {
						vals = append(vals, "NULL")
					} else {
						vals = append(vals, fmt.Sprint(k*10+1))
					}
				case c.Null && k == 3:
					vals = append(vals, "NULL")
				default:
					vals = append(vals, value(k, cn, c))
				}
			}
			q := fmt.Sprintf("INSERT INTO %s (%s) VALUES (%s)", tn, strings.Join(cols, ", "), strings.Join(vals, ", "))
			if _, err := db.Exec(q); err != nil {
				return fmt.Errorf("%s: %w", q, err)
			}
		}
	}
	return nil
}

func readRows(db *sql.DB, st sq.State) (map[string][]row, error) {
	out := map[string][]row{}
	for _, tn := range sq.TableNames {
		out[tn] = []row{}
		t, ok := st[tn]
		if !ok || !t.Present() {
			continue
		}
		var sel []string
		cols := t.ColList()
		for _, c := range cols {
			sel = append(sel, "quote("+c+")")
		}
		rs, err := db.Query("SELECT " + strings.Join(sel, ", ") + " FROM " + tn)
		if err != nil {
			return nil, err
		}
		for rs.Next() {
			vals := make([]sql.NullString, len(cols))
			ptr := make([]any, len(cols))
			for i := range vals {
				ptr[i] = &vals[i]
			}
			if err := rs.Scan(ptr...); err != nil {
				return nil, err
			}
			r := row{"a": "-", "b": "-", "c": "-"}
			for i, c := range cols {
				r[c] = vals[i].String
			}
			out[tn] = append(out[tn], r)
		}
		rs.Close()
		sort.Slice(out[tn], func(i, j int) bool { return fmt.Sprint(out[tn][i]) < fmt.Sprint(out[tn][j]) })
	}
	return out, nil
}

func equalState(a, b sq.State) bool {
	x, _ := json.Marshal(sq.Canon(a))
	y, _ := json.Marshal(sq.Canon(b))
	return string(x) == string(y)
}

func one(id int, p pair, dir string) (o obs) {
	o = obs{ID: id, From: sq.Canon(p.From), To: sq.Canon(p.To), After: sq.State{}, Undone: sq.State{}, Before: map[string][]row{}, Rows: map[string][]row{}}
	defer func() {
		if r := recover(); r != nil {
			o.Err = fmt.Sprint("panic: ", r)
		}
	}()
	path := filepath.Join(dir, fmt.Sprintf("p%d.db", id))
	defer os.Remove(path)
	db, err := sql.Open("sqlite3", "file:"+path+"?_fk=1")
	if err != nil {
		o.Skipped = err.Error()
		return
	}
	defer db.Close()
	db.SetMaxOpenConns(1)
	for _, s := range sq.DDL(p.From) {
		if _, err := db.Exec(s); err != nil {
			o.Skipped = "engine rejects the start state: " + s + ": " + err.Error()
			return
		}
	}
	got, err := sq.Project(db)
	if err != nil {
		o.Skipped = "projection: " + err.Error()
		return
	}
	if !equalState(got, p.From) {
		a, _ := json.Marshal(sq.Canon(got))
		o.Skipped = "projection of the start state differs from the model state (harness inconsistency): " + string(a)
		return
	}
	if err := populate(db, p.From); err != nil {
		o.Skipped = "populate: " + err.Error()
		return
	}
	if o.Before, err = readRows(db, p.From); err != nil {
		o.Skipped = "rows: " + err.Error()
		return
	}
	ctx := context.Background()
	drv, err := sqlite.Open(db)
	if err != nil {
		o.Err = "open: " + err.Error()
		return
	}
	cur, err := drv.InspectSchema(ctx, "main", nil)
	if err != nil {
		o.Err = "inspect: " + err.Error()
		return
	}
	desired := sq.Build(p.To)
	changes, err := drv.SchemaDiff(cur, desired, schema.DiffNormalized())
	if err != nil {
		o.Err = "diff: " + err.Error()
		return
	}
	var plan *migrate.Plan
	if len(changes) > 0 {
		if plan, err = drv.PlanChanges(ctx, "plan", changes); err != nil {
			o.Err = "plan: " + err.Error()
			return
		}
		for _, c := range plan.Changes {
			o.Stmts = append(o.Stmts, c.Cmd)
			if _, err := db.ExecContext(ctx, c.Cmd, c.Args...); err != nil {
				o.Err = "exec: " + c.Cmd + ": " + err.Error()
				return
			}
		}
		o.Reversible = plan.Reversible
	}
	if o.After, err = sq.Project(db); err != nil {
		o.Err = "projection after: " + err.Error()
		return
	}
	o.After = sq.Canon(o.After)
	if o.Rows, err = readRows(db, o.After); err != nil {
		o.Err = "rows after: " + err.Error()
		return
	}
	cur2, err := drv.InspectSchema(ctx, "main", nil)
	if err != nil {
		o.Err = "inspect 2: " + err.Error()
		return
	}
	ch2, err := drv.SchemaDiff(cur2, sq.Build(p.To), schema.DiffNormalized())
	if err != nil {
		o.Err = "diff 2: " + err.Error()
		return
	}
	o.Second = len(ch2)
	for _, c := range ch2 {
		o.Second2 = append(o.Second2, fmt.Sprintf("%T", c))
	}
	// C17: down
	if plan != nil && plan.Reversible {
		for i := len(plan.Changes) - 1; i >= 0 && o.DownErr == ""; i-- {
			rs, err := plan.Changes[i].ReverseStmts()
			if err != nil {
				o.DownErr = "reverse: " + err.Error()
				break
			}
			for _, s := range rs {
				o.Down = append(o.Down, s)
				if _, err := db.ExecContext(ctx, s); err != nil {
					o.DownErr = "exec down: " + s + ": " + err.Error()
					break
				}
			}
		}
		if o.DownErr == "" {
			if u, err := sq.Project(db); err == nil {
				o.Undone = sq.Canon(u)
			} else {
				o.DownErr = "projection: " + err.Error()
			}
		}
	}
	return
}

// oneInline: up / down where the desired state is what Atlas inspects from a database created with inline UNIQUE constraints (its
// indexes carry the engine's sqlite_autoindex_<table>_<n> names, as with an SQL schema file or another database as the desired state).
// Only the round trip is judged: `to` is reported as the state the plan actually produced.
func oneInline(id int, p pair, dir string, fromEmpty bool) (o obs, applicable bool) {
	if fromEmpty {
		// every table of the desired state is created by the plan (AddTable carrying the engine-named indexes)
		e := sq.State{}
		for _, tn := range sq.TableNames {
			t := sq.Table{Cols: map[string]sq.Col{}, Pk: []string{}, Idx: []sq.Idx{}, Fks: []sq.Fk{}, Chk: []sq.Chk{}}
			for _, cn := range sq.ColNames {
				t.Cols[cn] = sq.NoCol()
			}
			e[tn] = t
		}
		p = pair{From: e, To: p.To}
	}
	o = obs{ID: id, From: sq.Canon(p.From), To: sq.Canon(p.From), After: sq.State{}, Undone: sq.State{}, Before: map[string][]row{}, Rows: map[string][]row{}}
	stmts, inl := ddlVariant(p.To, "inline")
	if !inl {
		return o, false
	}
	defer func() {
		if r := recover(); r != nil {
			o.Err = fmt.Sprint("panic: ", r)
		}
	}()
	ctx := context.Background()
	dpath := filepath.Join(dir, fmt.Sprintf("i%dd.db", id))
	defer os.Remove(dpath)
	ddb, err := sql.Open("sqlite3", "file:"+dpath+"?_fk=1")
	if err != nil {
		o.Skipped = err.Error()
		return o, true
	}
	defer ddb.Close()
	for _, s := range stmts {
		if _, err := ddb.Exec(s); err != nil {
			o.Skipped = "engine rejects the desired state: " + s + ": " + err.Error()
			return o, true
		}
	}
	ddrv, err := sqlite.Open(ddb)
	if err != nil {
		o.Skipped = err.Error()
		return o, true
	}
	desired, err := ddrv.InspectSchema(ctx, "main", nil)
	if err != nil {
		o.Skipped = "inspect desired: " + err.Error()
		return o, true
	}
	path := filepath.Join(dir, fmt.Sprintf("i%d.db", id))
	defer os.Remove(path)
	db, err := sql.Open("sqlite3", "file:"+path+"?_fk=1")
	if err != nil {
		o.Skipped = err.Error()
		return o, true
	}
	defer db.Close()
	db.SetMaxOpenConns(1)
	for _, s := range sq.DDL(p.From) {
		if _, err := db.Exec(s); err != nil {
			o.Skipped = "engine rejects the start state: " + err.Error()
			return o, true
		}
	}
	if o.Before, err = readRows(db, p.From); err != nil {
		o.Skipped = "rows: " + err.Error()
		return o, true
	}
	o.Rows = o.Before
	drv, err := sqlite.Open(db)
	if err != nil {
		o.Err = "open: " + err.Error()
		return o, true
	}
	cur, err := drv.InspectSchema(ctx, "main", nil)
	if err != nil {
		o.Err = "inspect: " + err.Error()
		return o, true
	}
	changes, err := drv.SchemaDiff(cur, desired, schema.DiffNormalized())
	if err != nil {
		o.Err = "diff: " + err.Error()
		return o, true
	}
	if len(changes) == 0 {
		return o, false
	}
	plan, err := drv.PlanChanges(ctx, "plan", changes)
	if err != nil {
		o.Err = "plan: " + err.Error()
		return o, true
	}
	for _, c := range plan.Changes {
		o.Stmts = append(o.Stmts, c.Cmd)
		if _, err := db.ExecContext(ctx, c.Cmd, c.Args...); err != nil {
			o.Err = "exec: " + c.Cmd + ": " + err.Error()
			return o, true
		}
	}
	o.Reversible = plan.Reversible
	after, err := sq.Project(db)
	if err != nil {
		o.Err = "projection after: " + err.Error()
		return o, true
	}
	o.After = sq.Canon(after)
	o.To = o.After
	if o.Rows, err = readRows(db, o.After); err != nil {
		o.Err = "rows after: " + err.Error()
		return o, true
	}
	if plan.Reversible {
		for i := len(plan.Changes) - 1; i >= 0 && o.DownErr == ""; i-- {
			rs, err := plan.Changes[i].ReverseStmts()
			if err != nil {
				o.DownErr = "reverse: " + err.Error()
				break
			}
			for _, s := range rs {
				o.Down = append(o.Down, s)
				if _, err := db.ExecContext(ctx, s); err != nil {
					o.DownErr = "exec down: " + s + ": " + err.Error()
					break
				}
			}
		}
		if o.DownErr == "" {
			if u, err := sq.Project(db); err == nil {
				o.Undone = sq.Canon(u)
			} else {
				o.DownErr = "projection: " + err.Error()
			}
		}
	}
	return o, true
}

// oneCLI repeats the flow of one() through the real CLI binary (VERIF_ATLAS): the desired state is created on a second database,
// exported with `schema inspect` (HCL) and applied to the populated current database with `schema apply --auto-approve`; the diff
// afterwards comes from `schema diff`. Projection and rows are read by the harness, as in one().
func oneCLI(id int, p pair, dir string, mustRefuse bool) (o obs) {
	o = obs{ID: id, From: sq.Canon(p.From), To: sq.Canon(p.To), After: sq.State{}, Undone: sq.State{}, Before: map[string][]row{}, Rows: map[string][]row{}}
	o.MustRefuse = mustRefuse
	atlas := os.Getenv("VERIF_ATLAS")
	base := filepath.Join(dir, fmt.Sprintf("cli%d", id))
	os.MkdirAll(base, 0o755)
	defer os.RemoveAll(base)
	mk := func(name string, st sq.State, fill bool) (string, bool) {
		path := filepath.Join(base, name)
		db, err := sql.Open("sqlite3", "file:"+path+"?_fk=1")
		if err != nil {
			o.Skipped = err.Error()
			return "", false
		}
		defer db.Close()
		db.SetMaxOpenConns(1)
		for _, s := range sq.DDL(st) {
			if _, err := db.Exec(s); err != nil {
				o.Skipped = "engine rejects the state: " + s + ": " + err.Error()
				return "", false
			}
		}
		got, err := sq.Project(db)
		if err != nil || !equalState(got, st) {
			o.Skipped = "projection of a created state differs from the model state (harness inconsistency)"
			return "", false
		}
		if fill {
			if err := populate(db, st, p.To); err != nil {
				o.Skipped = "populate: " + err.Error()
				return "", false
			}
			if o.Before, err = readRows(db, st); err != nil {
				o.Skipped = "rows: " + err.Error()
				return "", false
			}
		}
		return path, true
	}
	cur, ok := mk("cur.db", p.From, true)
	if !ok {
		return
	}
	des, ok := mk("des.db", p.To, false)
	if !ok {
		return
	}
	run := func(args ...string) (string, error) {
		cmd := exec.Command(atlas, args...)
		cmd.Env = append(os.Environ(), "ATLAS_NO_UPGRADE_SUGGESTIONS=1", "ATLAS_NO_UPDATE_NOTIFIER=1", "TMPDIR="+base, "HOME="+base)
		cmd.Dir = base
		b, err := cmd.CombinedOutput()
		return string(b), err
	}
	hcl, err := run("schema", "inspect", "--url", "sqlite://"+des)
	if err != nil {
		o.Skipped = "schema inspect of the desired database: " + hcl
		return
	}
	hp := filepath.Join(base, "desired.hcl")
	os.WriteFile(hp, []byte(hcl), 0o644)
	out, err := run("schema", "apply", "--url", "sqlite://"+cur+"?_fk=1", "--to", "file://"+hp, "--dev-url", "sqlite://dev?mode=memory", "--auto-approve")
	o.Stmts = []string{out}
	if mustRefuse {
		// the change cannot be carried out on the populated table: whatever the CLI answered, report what the database looks like now
		if err != nil {
			o.Err = "schema apply: " + out
		}
		db, err2 := sql.Open("sqlite3", "file:"+cur+"?_fk=1")
		if err2 != nil {
			o.Skipped = err2.Error()
			return
		}
		defer db.Close()
		if a, err2 := sq.Project(db); err2 == nil {
			o.After = sq.Canon(a)
			o.Rows, _ = readRows(db, o.After)
		}
		return
	}
	if err != nil {
		if strings.Contains(out, "foreign key mismatch") {
			// the rows do not satisfy a foreign key of the desired state (e.g. NULLs replaced by a default without parent): the CLI
			// verifies foreign keys after applying and refuses - outside C01's domain
			o.Skipped = "rows violate a desired foreign key; refused by the CLI's foreign-key verification"
			return
		}
		o.Err = "schema apply: " + out
		return
	}
	db, err := sql.Open("sqlite3", "file:"+cur+"?_fk=1")
	if err != nil {
		o.Err = err.Error()
		return
	}
	defer db.Close()
	if o.After, err = sq.Project(db); err != nil {
		o.Err = "projection after: " + err.Error()
		return
	}
	o.After = sq.Canon(o.After)
	if o.Rows, err = readRows(db, o.After); err != nil {
		o.Err = "rows after: " + err.Error()
		return
	}
	out, err = run("schema", "diff", "--from", "sqlite://"+cur, "--to", "file://"+hp, "--dev-url", "sqlite://dev?mode=memory")
	if err != nil {
		o.Err = "schema diff: " + out
		return
	}
	if !strings.Contains(out, "Schemas are synced") {
		o.Second = 1
		o.Second2 = []string{out}
	}
	return
}

func main() {
	f, err := os.Open(os.Args[1])
	if err != nil {
		panic(err)
	}
	var workers int
	fmt.Sscan(os.Args[3], &workers)
	if len(os.Args) > 4 && os.Args[4] == "export" {
		f.Close()
		exportMode(os.Args[1], os.Args[2], workers)
		return
	}
	dir, err := os.MkdirTemp(os.Getenv("VERIF_SCRATCH"), "engine")
	if err != nil {
		panic(err)
	}
	defer os.RemoveAll(dir)
	sc := bufio.NewScanner(f)
	sc.Buffer(make([]byte, 1<<20), 1<<26)
	var pairs []pair
	for sc.Scan() {
		var p pair
		if err := json.Unmarshal(sc.Bytes(), &p); err != nil {
			panic(err)
		}
		pairs = append(pairs, p)
	}
	res := make([]obs, len(pairs))
	var every int
	fmt.Sscan(os.Getenv("VERIF_CLI_EVERY"), &every)
	var cliIdx []int
	if every > 0 && os.Getenv("VERIF_ATLAS") != "" {
		for i := range pairs {
			if i%every == every/2 {
				cliIdx = append(cliIdx, i)
			}
		}
	}
	// the CLI slice: the sampled pairs followed by the inadmissible pairs (VERIF_REFUSE), which only the CLI's transaction can judge
	var cpairs []pair
	for _, i := range cliIdx {
		cpairs = append(cpairs, pairs[i])
	}
	if rp := os.Getenv("VERIF_REFUSE"); rp != "" && len(cliIdx) > 0 {
		if rf, err := os.Open(rp); err == nil {
			rs := bufio.NewScanner(rf)
			rs.Buffer(make([]byte, 1<<20), 1<<26)
			for rs.Scan() {
				var p pair
				if json.Unmarshal(rs.Bytes(), &p) == nil {
					cpairs = append(cpairs, p)
				}
			}
			rf.Close()
		}
	}
	cres := make([]obs, len(cpairs))
	var wg sync.WaitGroup
	ch := make(chan int)
	for w := 0; w < workers; w++ {
		wg.Add(1)
		go func() {
			defer wg.Done()
			for i := range ch {
				res[i] = one(i+1, pairs[i], dir)
			}
		}()
	}
	for i := range pairs {
		ch <- i
	}
	close(ch)
	wg.Wait()
	if len(cliIdx) > 0 {
		ch2 := make(chan int)
		for w := 0; w < workers; w++ {
			wg.Add(1)
			go func() {
				defer wg.Done()
				for k := range ch2 {
					cres[k] = oneCLI(k+1, cpairs[k], dir, k >= len(cliIdx))
				}
			}()
		}
		for k := range cpairs {
			ch2 <- k
		}
		close(ch2)
		wg.Wait()
		cf, _ := os.Create(os.Args[2] + ".cli")
		cw := bufio.NewWriterSize(cf, 1<<20)
		cff, _ := os.Create(os.Args[2] + ".cli.full")
		cwf := bufio.NewWriterSize(cff, 1<<20)
		for _, o := range cres {
			b, _ := json.Marshal(o)
			cwf.Write(b)
			cwf.WriteByte('\n')
			lean := o
			lean.Stmts, lean.Down, lean.Second2 = nil, nil, nil
			b, _ = json.Marshal(lean)
			cw.Write(b)
			cw.WriteByte('\n')
		}
		cw.Flush()
		cf.Close()
		cwf.Flush()
		cff.Close()
	}
	// up / down with an inspected inline-UNIQUE database as the desired state (every 3rd applicable pair), appended to the observations
	ninl := 0
	if os.Getenv("VERIF_INLINE") != "" {
		var idx []int
		for i := range pairs {
			if i%3 == 0 {
				idx = append(idx, i)
			}
		}
		type ires struct {
			o  obs
			ok bool
		}
		ir := make([]ires, len(idx))
		ch3 := make(chan int)
		var wg3 sync.WaitGroup
		for w := 0; w < workers; w++ {
			wg3.Add(1)
			go func() {
				defer wg3.Done()
				for k := range ch3 {
					o, ok := oneInline(1000000+k, pairs[idx[k]], dir, k%2 == 1)
					ir[k] = ires{o, ok}
				}
			}()
		}
		for k := range idx {
			ch3 <- k
		}
		close(ch3)
		wg3.Wait()
		for _, r := range ir {
			if r.ok {
				r.o.ID = len(res) + 1
				res = append(res, r.o)
				ninl++
			}
		}
	}
	of, _ := os.Create(os.Args[2])
	w := bufio.NewWriterSize(of, 1<<20)
	ff, _ := os.Create(os.Args[2] + ".full")
	wf := bufio.NewWriterSize(ff, 1<<20)
	skipped := map[string]int{}
	nskip := 0
	for _, o := range res {
		b, _ := json.Marshal(o)
		wf.Write(b)
		wf.WriteByte('\n')
		if o.Skipped != "" {
			nskip++
			k := o.Skipped
			if len(k) > 60 {
				k = k[:60]
			}
			skipped[k]++
		}
		lean := o
		lean.Stmts, lean.Down, lean.Second2 = nil, nil, nil
		b, _ = json.Marshal(lean)
		w.Write(b)
		w.WriteByte('\n')
	}
	w.Flush()
	of.Close()
	wf.Flush()
	ff.Close()
	json.NewEncoder(os.Stdout).Encode(map[string]any{"pairs": len(pairs), "skipped": nskip, "skip_reasons": skipped, "inline_desired_updown": ninl})
}
