package main

import (
	"bufio"
	"context"
	"database/sql"
	"encoding/json"
	"fmt"
	"os"
	"os/exec"
	"path/filepath"
	"strings"
	"sync"

	"ariga.io/atlas/sql/schema"
	"ariga.io/atlas/sql/sqlite"
	"verif/cli/sq"
)

// C03: schema exports are faithful. For every state: create it on a real SQLite file (in one of several DDL spellings), inspect it with
// Atlas, export HCL (MarshalHCL) and SQL (the plan that creates the inspected realm, which is what `{{ sql . }}` prints), evaluate the HCL
// and diff both ways, re-create from both exports on fresh engines and project independently.

type exportObs struct {
	ID        int      `json:"id"`
	Variant   string   `json:"variant"`
	State     sq.State `json:"state"`
	Orig      sq.State `json:"orig"`
	FromHCL   sq.State `json:"from_hcl"`
	FromSQL   sq.State `json:"from_sql"`
	Skipped   string   `json:"skipped"`
	Err       string   `json:"err"`
	DiffFwd   int      `json:"diff_fwd"`
	FreshDiff int      `json:"fresh_diff"`
	DiffBwd   int      `json:"diff_bwd"`
	Stable    bool     `json:"stable"`
	HCL       string   `json:"hcl,omitempty"`
	SQL       []string `json:"sql,omitempty"`
	Changes   []string `json:"changes,omitempty"`
	HasInline bool     `json:"has_inline_unique"`
}

// ddlVariant renders the start state in another spelling: single-column keys inline, eligible unique indexes as inline UNIQUE constraints.
func ddlVariant(st sq.State, variant string) ([]string, bool) {
	if variant == "plain" {
		return sq.DDL(st), false
	}
	if variant == "exprindex" {
		// an index whose second key part is an expression, written compactly (no blank after the comma)
		return append(sq.DDL(st), "CREATE INDEX zx ON t1(a,(a+1))"), false
	}
	if variant == "exprindexdesc" {
		// ... and a descending expression part
		return append(sq.DDL(st), "CREATE INDEX zx ON t1(a DESC,(a+1) DESC)"), false
	}
	if strings.HasPrefix(variant, "dflt:") {
		// the default "one" written in another way
		return sq.DDLWith(st, strings.TrimPrefix(variant, "dflt:")), false
	}
	if variant == "customtype" {
		// a table whose column types are names the engine does not know (kept verbatim, in upper case)
		return append(sq.DDL(st), "CREATE TABLE zc (id integer NOT NULL, amount MONEY, g GUID)"), false
	}
	if variant == "lowerwhere" {
		// keywords as a person might type them: the engine keeps the text verbatim
		var out []string
		for _, s := range sq.DDL(st) {
			if strings.HasPrefix(s, "CREATE") && strings.Contains(s, " INDEX ") && strings.Contains(s, " WHERE ") {
				s = strings.Replace(s, " WHERE ", " where ", 1)
			}
			out = append(out, s)
		}
		return out, false
	}
	if variant == "multiline" {
		// the engine keeps the statement text verbatim: line breaks inside the predicate of a partial index and inside a CREATE TABLE
		var out []string
		for _, s := range sq.DDL(st) {
			if strings.HasPrefix(s, "CREATE") && strings.Contains(s, " INDEX ") && strings.Contains(s, " WHERE ") {
				i := strings.LastIndex(s, " WHERE ")
				s = s[:i] + "\nWHERE " + strings.Replace(s[i+7:], " > ", "\n  > ", 1)
			}
			out = append(out, s)
		}
		return out, false
	}
	// rewrite: take the plain DDL and move eligible unique indexes into the CREATE TABLE
	inline := map[string][]string{}
	rest := sq.State{}
	used := false
	for tn, t := range st {
		nt := t
		nt.Idx = nil
		for _, x := range t.Idx {
			ok := x.Unique && x.Where == ""
			for _, p := range x.Parts {
				ok = ok && !p.Desc
			}
			if ok {
				var cs []string
				for _, p := range x.Parts {
					cs = append(cs, p.C)
				}
				inline[tn] = append(inline[tn], "UNIQUE ("+strings.Join(cs, ", ")+")")
				used = true
			} else {
				nt.Idx = append(nt.Idx, x)
			}
		}
		if nt.Idx == nil {
			nt.Idx = []sq.Idx{}
		}
		rest[tn] = nt
	}
	// checks as column constraints of column a (more column definitions, with their quoted defaults, follow them in the stored text)
	colchk := map[string]string{}
	for tn, t := range rest {
		if len(t.Chk) == 0 {
			continue
		}
		var cs []string
		for _, k := range t.Chk {
			if k.Name != "" {
				cs = append(cs, "CONSTRAINT "+k.Name+" CHECK "+sq.ExprText(k.Expr))
			} else {
				cs = append(cs, "CHECK "+sq.ExprText(k.Expr))
			}
		}
		colchk[tn] = strings.Join(cs, " ")
		t.Chk = []sq.Chk{}
		rest[tn] = t
		used = true
	}
	stmts := sq.DDL(rest)
	for i, s := range stmts {
		for tn, cc := range colchk {
			if strings.HasPrefix(s, "CREATE TABLE "+tn+" (a ") {
				j := strings.Index(s, ",")
				if j < 0 || strings.Contains(s[:j], "(") && !strings.Contains(s[:j], ")") {
					j = strings.LastIndex(s, ")")
				}
				stmts[i] = s[:j] + " " + cc + s[j:]
				s = stmts[i]
			}
		}
		for tn, us := range inline {
			if strings.HasPrefix(s, "CREATE TABLE "+tn+" (") {
				j := strings.LastIndex(s, ")")
				stmts[i] = s[:j] + ", " + strings.Join(us, ", ") + s[j:]
			}
		}
	}
	return stmts, used
}

// normInline: an inline UNIQUE constraint and a named unique index over the same columns are the same abstract object; when the original
// has inline uniques, unique non-partial ascending indexes are compared by their columns only.
func normInline(st sq.State, on bool) sq.State {
	if !on {
		return sq.Canon(st)
	}
	out := sq.State{}
	for n, t := range st {
		var idx []sq.Idx
		for _, x := range t.Idx {
			ok := x.Unique && x.Where == ""
			for _, p := range x.Parts {
				ok = ok && !p.Desc
			}
			if ok {
				var cs []string
				for _, p := range x.Parts {
					cs = append(cs, p.C)
				}
				x.Name = "uq:" + strings.Join(cs, ",")
			}
			idx = append(idx, x)
		}
		if idx == nil {
			idx = []sq.Idx{}
		}
		t.Idx = idx
		out[n] = t
	}
	return sq.Canon(out)
}

func dropIdx(st sq.State, name string) sq.State {
	out := sq.State{}
	for n, t := range st {
		var idx []sq.Idx
		for _, x := range t.Idx {
			if x.Name != name {
				idx = append(idx, x)
			}
		}
		if idx == nil {
			idx = []sq.Idx{}
		}
		t.Idx = idx
		out[n] = t
	}
	return out
}

func openDB(path string) (*sql.DB, error) {
	db, err := sql.Open("sqlite3", "file:"+path+"?_fk=1")
	if err != nil {
		return nil, err
	}
	db.SetMaxOpenConns(1)
	return db, nil
}

func recreate(ctx context.Context, path string, stmts []string) (sq.State, error) {
	st, _, err := recreateAndDiff(ctx, path, stmts, nil)
	return st, err
}

// recreateAndDiff executes the statements on a fresh database and, when desired is given, also inspects that database and diffs it
// (normalized, as `schema apply` does) against desired: the number of changes a second apply of the same document would plan.
func recreateAndDiff(ctx context.Context, path string, stmts []string, desired *schema.Schema) (sq.State, []string, error) {
	db, err := openDB(path)
	if err != nil {
		return nil, nil, err
	}
	defer db.Close()
	defer os.Remove(path)
	for _, s := range stmts {
		if _, err := db.ExecContext(ctx, s); err != nil {
			return nil, nil, fmt.Errorf("%s: %w", s, err)
		}
	}
	st, err := sq.Project(db)
	if err != nil || desired == nil {
		return st, nil, err
	}
	drv, err := sqlite.Open(db)
	if err != nil {
		return st, nil, err
	}
	cur, err := drv.InspectSchema(ctx, "main", nil)
	if err != nil {
		return st, nil, fmt.Errorf("inspect of the re-created database: %w", err)
	}
	cs, err := drv.SchemaDiff(cur, desired, schema.DiffNormalized())
	if err != nil {
		return st, nil, fmt.Errorf("diff of the re-created database: %w", err)
	}
	var names []string
	for _, c := range cs {
		names = append(names, fmt.Sprintf("%T", c))
	}
	return st, names, nil
}

func exportOne(id int, st sq.State, variant, dir string) (o exportObs) {
	o = exportObs{ID: id, Variant: variant, State: sq.Canon(st), Orig: sq.State{}, FromHCL: sq.State{}, FromSQL: sq.State{}}
	defer func() {
		if r := recover(); r != nil {
			o.Err = fmt.Sprint("panic: ", r)
		}
	}()
	ctx := context.Background()
	path := filepath.Join(dir, fmt.Sprintf("e%d.db", id))
	defer os.Remove(path)
	db, err := openDB(path)
	if err != nil {
		o.Skipped = err.Error()
		return
	}
	defer db.Close()
	stmts, inl := ddlVariant(st, variant)
	o.HasInline = inl
	for _, s := range stmts {
		if _, err := db.Exec(s); err != nil {
			o.Skipped = "engine rejects the start state: " + s + ": " + err.Error()
			return
		}
	}
	orig, err := sq.Project(db)
	if err != nil {
		o.Skipped = "projection: " + err.Error()
		return
	}
	o.Orig = normInline(orig, inl)
	cmp := dropIdx(orig, "zx")
	if variant == "customtype" {
		c2 := sq.State{}
		for k, v := range cmp {
			if k != "zc" {
				c2[k] = v
			}
		}
		cmp = c2
	}
	if !equalState(normInline(cmp, inl), normInline(st, inl)) {
		o.Skipped = "projection of the start state differs from the model state (harness inconsistency)"
		return
	}
	drv, err := sqlite.Open(db)
	if err != nil {
		o.Err = "open: " + err.Error()
		return
	}
	cur, err := drv.InspectSchema(ctx, "main", nil)
	if err != nil {
		o.Err = "inspect: " + err.Error()
		return
	}
	hcl, err := sqlite.MarshalHCL(cur)
	if err != nil {
		o.Err = "marshal: " + err.Error()
		return
	}
	o.HCL = string(hcl)
	cur2, err := drv.InspectSchema(ctx, "main", nil)
	if err != nil {
		o.Err = "inspect 2: " + err.Error()
		return
	}
	hcl2, _ := sqlite.MarshalHCL(cur2)
	o.Stable = string(hcl) == string(hcl2)
	var ev schema.Schema
	if err := sqlite.EvalHCLBytes(hcl, &ev, nil); err != nil {
		o.Err = "eval hcl: " + err.Error()
		return
	}
	fwd, err := drv.SchemaDiff(cur, &ev, schema.DiffNormalized())
	if err != nil {
		o.Err = "diff fwd: " + err.Error()
		return
	}
	bwd, err := drv.SchemaDiff(&ev, cur, schema.DiffNormalized())
	if err != nil {
		o.Err = "diff bwd: " + err.Error()
		return
	}
	o.DiffFwd, o.DiffBwd = len(fwd), len(bwd)
	for _, c := range append(fwd, bwd...) {
		o.Changes = append(o.Changes, fmt.Sprintf("%T", c))
	}
	// re-create from the evaluated HCL on a fresh engine
	plan := func(s *schema.Schema) ([]string, error) {
		var cs []schema.Change
		for _, t := range s.Tables {
			cs = append(cs, &schema.AddTable{T: t})
		}
		if len(cs) == 0 {
			return nil, nil
		}
		p, err := drv.PlanChanges(ctx, "export", cs)
		if err != nil {
			return nil, err
		}
		var out []string
		for _, c := range p.Changes {
			out = append(out, c.Cmd)
		}
		return out, nil
	}
	hs, err := plan(&ev)
	if err != nil {
		o.Err = "plan from hcl: " + err.Error()
		return
	}
	// a second evaluation of the document is the desired state of the re-plan (the first one was consumed by the plan above)
	var ev2 schema.Schema
	if err := sqlite.EvalHCLBytes(hcl, &ev2, nil); err != nil {
		o.Err = "eval hcl: " + err.Error()
		return
	}
	fh, fresh, err := recreateAndDiff(ctx, filepath.Join(dir, fmt.Sprintf("e%dh.db", id)), hs, &ev2)
	if err != nil {
		o.Err = "re-create from hcl: " + err.Error()
		return
	}
	o.FreshDiff = len(fresh)
	for _, c := range fresh {
		o.Changes = append(o.Changes, "re-plan on the re-created database: "+c)
	}
	o.FromHCL = normInline(fh, inl)
	// the SQL export: the statements that create the inspected schema
	ss, err := plan(cur)
	if err != nil {
		o.Err = "plan sql export: " + err.Error()
		return
	}
	o.SQL = ss
	fs, err := recreate(ctx, filepath.Join(dir, fmt.Sprintf("e%ds.db", id)), ss)
	if err != nil {
		o.Err = "re-create from sql: " + err.Error()
		return
	}
	o.FromSQL = normInline(fs, inl)
	return
}

func exportMode(pairsFile, out string, workers int) {
	every := 0
	fmt.Sscan(os.Getenv("VERIF_CLI_EVERY"), &every)
	f, err := os.Open(pairsFile)
	if err != nil {
		panic(err)
	}
	dir, err := os.MkdirTemp(os.Getenv("VERIF_SCRATCH"), "export")
	if err != nil {
		panic(err)
	}
	defer os.RemoveAll(dir)
	sc := bufio.NewScanner(f)
	sc.Buffer(make([]byte, 1<<20), 1<<26)
	seen := map[string]bool{}
	type job struct {
		st      sq.State
		variant string
	}
	var jobs []job
	for sc.Scan() {
		var p pair
		if err := json.Unmarshal(sc.Bytes(), &p); err != nil {
			panic(err)
		}
		for _, st := range []sq.State{p.From, p.To} {
			b, _ := json.Marshal(sq.Canon(st))
			if seen[string(b)] {
				continue
			}
			seen[string(b)] = true
			jobs = append(jobs, job{st, "plain"})
			if _, inl := ddlVariant(st, "inline"); inl {
				jobs = append(jobs, job{st, "inline"})
			}
			if t1 := st["t1"]; t1.Present() && t1.Cols["a"].Type == "INT" && t1.Cols["a"].Gen == "" && len(jobs)%7 == 0 {
				if len(jobs)%2 == 0 {
					jobs = append(jobs, job{st, "exprindex"})
				} else {
					jobs = append(jobs, job{st, "exprindexdesc"})
				}
			}
			hasDflt := false
			for _, t := range st {
				for _, c := range t.Cols {
					hasDflt = hasDflt || (c.Type == "INT" && c.Dflt != "none")
				}
			}
			if hasDflt && len(jobs)%5 == 0 {
				sp := []string{"1", "1.0", "1e0", "+1", "0x1", "TRUE", `"1"`}
				jobs = append(jobs, job{st, "dflt:" + sp[(len(jobs)/5)%len(sp)]})
			}
			partial := false
			for _, t := range st {
				for _, x := range t.Idx {
					partial = partial || x.Where != ""
				}
			}
			if partial && len(jobs)%3 == 0 {
				jobs = append(jobs, job{st, "multiline"})
			}
			if partial && len(jobs)%3 == 1 {
				jobs = append(jobs, job{st, "lowerwhere"})
			}
			if len(jobs)%11 == 0 {
				jobs = append(jobs, job{st, "customtype"})
			}
		}
	}
	// quick tier: the plain / inline spellings of every other state (the special spellings are all kept)
	if smp := os.Getenv("VERIF_EXPORT_SAMPLE"); smp == "2" {
		var kept []job
		n := 0
		for _, j := range jobs {
			if j.variant == "plain" || j.variant == "inline" {
				n++
				if n%2 == 0 {
					continue
				}
			}
			kept = append(kept, j)
		}
		jobs = kept
	}
	res := make([]exportObs, len(jobs))
	var wg sync.WaitGroup
	ch := make(chan int)
	for w := 0; w < workers; w++ {
		wg.Add(1)
		go func() {
			defer wg.Done()
			for i := range ch {
				res[i] = exportOne(i+1, jobs[i].st, jobs[i].variant, dir)
				if every > 0 && i%every == 0 {
					cliExport(&res[i], jobs[i].st, jobs[i].variant, dir)
				}
			}
		}()
	}
	for i := range jobs {
		ch <- i
	}
	close(ch)
	wg.Wait()
	of, _ := os.Create(out)
	w := bufio.NewWriterSize(of, 1<<20)
	ff, _ := os.Create(out + ".full")
	wf := bufio.NewWriterSize(ff, 1<<20)
	nskip, ninl := 0, 0
	for _, o := range res {
		b, _ := json.Marshal(o)
		wf.Write(b)
		wf.WriteByte('\n')
		if o.Skipped != "" {
			nskip++
		}
		if o.HasInline {
			ninl++
		}
		lean := o
		lean.HCL, lean.SQL, lean.Changes = "", nil, nil
		b, _ = json.Marshal(lean)
		w.Write(b)
		w.WriteByte('\n')
	}
	w.Flush()
	of.Close()
	wf.Flush()
	ff.Close()
	json.NewEncoder(os.Stdout).Encode(map[string]any{"states": len(jobs), "skipped": nskip, "inline_unique_variants": ninl})
}

// cliExport repeats the export checks through the real CLI binary (VERIF_ATLAS): `schema inspect` as HCL and as SQL, `schema diff`
// between the database and its HCL export in both directions, `schema apply` of the HCL on a fresh database, execution of the SQL script.
func cliExport(o *exportObs, st sq.State, variant, dir string) {
	atlas := os.Getenv("VERIF_ATLAS")
	if atlas == "" || o.Skipped != "" || o.Err != "" {
		return
	}
	ctx := context.Background()
	base := filepath.Join(dir, fmt.Sprintf("cli%d", o.ID))
	os.MkdirAll(base, 0o755)
	defer os.RemoveAll(base)
	path := filepath.Join(base, "orig.db")
	db, err := openDB(path)
	if err != nil {
		return
	}
	stmts, inl := ddlVariant(st, variant)
	for _, s := range stmts {
		if _, err := db.Exec(s); err != nil {
			db.Close()
			return
		}
	}
	db.Close()
	run := func(args ...string) (string, error) {
		cmd := exec.CommandContext(ctx, atlas, args...)
		cmd.Env = append(os.Environ(), "ATLAS_NO_UPGRADE_SUGGESTIONS=1", "ATLAS_NO_UPDATE_NOTIFIER=1", "TMPDIR="+base, "HOME="+base)
		cmd.Dir = base
		b, err := cmd.CombinedOutput()
		return string(b), err
	}
	fail := func(f string, a ...any) { o.Err = "cli: " + fmt.Sprintf(f, a...) }
	hcl, err := run("schema", "inspect", "--url", "sqlite://"+path)
	if err != nil {
		fail("inspect: %v %s", err, hcl)
		return
	}
	hcl2, _ := run("schema", "inspect", "--url", "sqlite://"+path)
	if hcl != hcl2 {
		o.Stable = false
	}
	script, err := run("schema", "inspect", "--url", "sqlite://"+path, "--format", "{{ sql . }}")
	if err != nil {
		fail("inspect sql: %v %s", err, script)
		return
	}
	hp := filepath.Join(base, "s.hcl")
	os.WriteFile(hp, []byte(hcl), 0o644)
	for _, dirn := range [][2]string{{"sqlite://" + path, "file://" + hp}, {"file://" + hp, "sqlite://" + path}} {
		out, err := run("schema", "diff", "--from", dirn[0], "--to", dirn[1], "--dev-url", "sqlite://dev?mode=memory")
		if err != nil {
			fail("diff: %v %s", err, out)
			return
		}
		if !strings.Contains(out, "Schemas are synced") {
			o.DiffFwd++
			o.Changes = append(o.Changes, "cli diff: "+out)
		}
	}
	fresh := filepath.Join(base, "fresh.db")
	if out, err := run("schema", "apply", "--url", "sqlite://"+fresh, "--to", "file://"+hp, "--auto-approve"); err != nil {
		fail("apply hcl on a fresh database: %v %s", err, out)
		return
	}
	fdb, err := openDB(fresh)
	if err == nil {
		if p, err := sq.Project(fdb); err == nil {
			o.FromHCL = normInline(p, inl)
		}
		fdb.Close()
	}
	sqlp := filepath.Join(base, "fresh2.db")
	sdb, err := openDB(sqlp)
	if err == nil {
		if _, err := sdb.Exec(script); err != nil {
			fail("executing the SQL export: %v", err)
		} else if p, err := sq.Project(sdb); err == nil {
			o.FromSQL = normInline(p, inl)
		}
		sdb.Close()
	}
	o.Variant += "+cli"
}
