// Package sq binds SqliteModel.tla to a real SQLite engine: an independent DDL renderer, an independent pragma-based
// projection of a database back to the abstract state, and the construction of desired schema.Schema objects.
package sq

import (
	"database/sql"
	"fmt"
	"regexp"
	"sort"
	"strconv"
	"strings"

	"ariga.io/atlas/sql/schema"
	"ariga.io/atlas/sql/sqlite"
)

type (
	Col struct {
		Type string `json:"type"`
		Null bool   `json:"null"`
		Dflt string `json:"dflt"`
		Gen  string `json:"gen"`
	}
	Part struct {
		C    string `json:"c"`
		Desc bool   `json:"desc"`
	}
	Idx struct {
		Name   string `json:"name"`
		Parts  []Part `json:"parts"`
		Unique bool   `json:"unique"`
		Where  string `json:"where"`
	}
	Fk struct {
		Name   string `json:"name"`
		Col    string `json:"col"`
		Ref    string `json:"ref"`
		RefCol string `json:"refcol"`
		OnUpd  string `json:"onupd"`
		OnDel  string `json:"ondel"`
	}
	Chk struct {
		Name string `json:"name"`
		Expr string `json:"expr"`
	}
	Table struct {
		Cols    map[string]Col `json:"cols"`
		Pk      []string       `json:"pk"`
		Autoinc bool           `json:"autoinc"`
		Worowid bool           `json:"worowid"`
		Strict  bool           `json:"strict"`
		Idx     []Idx          `json:"idx"`
		Fks     []Fk           `json:"fks"`
		Chk     []Chk          `json:"chk"`
	}
	State map[string]Table
)

var (
	TableNames = []string{"t1", "t2"}
	ColNames   = []string{"a", "b", "c"}
)

// isOne: the default expression of a column with INTEGER affinity stores the integer 1: a numeric literal equal to one, TRUE, or a
// string literal that the affinity converts to one (decimal forms only: '0x1' stays text).
func isOne(d string) bool {
	d = strings.TrimSpace(d)
	for strings.HasPrefix(d, "(") && strings.HasSuffix(d, ")") {
		d = strings.TrimSpace(d[1 : len(d)-1])
	}
	if strings.EqualFold(d, "true") {
		return true
	}
	quoted := false
	if len(d) >= 2 && (d[0] == '\'' && d[len(d)-1] == '\'' || d[0] == '"' && d[len(d)-1] == '"') {
		d, quoted = d[1:len(d)-1], true
	}
	if !quoted && (strings.HasPrefix(d, "0x") || strings.HasPrefix(d, "0X")) {
		n, err := strconv.ParseInt(d[2:], 16, 64)
		return err == nil && n == 1
	}
	f, err := strconv.ParseFloat(d, 64)
	return err == nil && f == 1
}

func NoCol() Col { return Col{Type: "-", Dflt: "none"} }

func AbsentTable() Table {
	t := Table{Cols: map[string]Col{}, Pk: []string{}, Idx: []Idx{}, Fks: []Fk{}, Chk: []Chk{}}
	for _, c := range ColNames {
		t.Cols[c] = NoCol()
	}
	return t
}

func (t Table) Present() bool {
	for _, c := range t.Cols {
		if c.Type != "-" {
			return true
		}
	}
	return false
}

func (t Table) ColList() []string {
	var out []string
	for _, c := range ColNames {
		if t.Cols[c].Type != "-" {
			out = append(out, c)
		}
	}
	return out
}

func sqlType(t string) string {
	if t == "INT" {
		return "integer"
	}
	return "text"
}

const (
	genExpr  = "(a + 1)"
	wherePrd = "a > 0"
)

// Check expressions carry string literals on purpose (one ends in a backslash, which is no escape character in SQLite):
// the inspector has to cut them out of the stored CREATE TABLE text.
const (
	exprE1 = `(a > 0 OR a = 'q')`
	exprE2 = `(a > 1 AND a <> '\' AND a <> 'z')`
)

func ExprText(id string) string {
	switch id {
	case "e1":
		return exprE1
	case "e2":
		return exprE2
	}
	return id
}

// ---------------------------------------------------------------- independent DDL renderer

// DDL renders the statements that create state st on an empty database (tables in an order that satisfies nothing in
// particular: SQLite does not check foreign-key targets at CREATE time).
func DDL(st State) []string { return DDLWith(st, "") }

// DDLWith renders the state with the default "one" of INTEGER columns written as intDefault (when not empty).
func DDLWith(st State, intDefault string) []string {
	var out []string
	for _, tn := range TableNames {
		t := st[tn]
		if !t.Present() {
			continue
		}
		var defs []string
		for _, cn := range t.ColList() {
			c := t.Cols[cn]
			d := cn + " " + sqlType(c.Type)
			if c.Gen != "" {
				d += " GENERATED ALWAYS AS " + genExpr + " " + strings.ToUpper(c.Gen)
			}
			if !c.Null {
				d += " NOT NULL"
			}
			if c.Dflt != "none" {
				if intDefault != "" && c.Type == "INT" {
					d += " DEFAULT " + intDefault
				} else {
					d += " DEFAULT '1'"
				}
			}
			if t.Autoinc && len(t.Pk) == 1 && t.Pk[0] == cn {
				d += " PRIMARY KEY AUTOINCREMENT"
			}
			defs = append(defs, d)
		}
		if len(t.Pk) > 0 && !t.Autoinc {
			defs = append(defs, "PRIMARY KEY ("+strings.Join(t.Pk, ", ")+")")
		}
		// the check whose literal ends in a backslash first, so that more quoted text follows it in the stored CREATE statement
		chks := append([]Chk{}, t.Chk...)
		sort.SliceStable(chks, func(i, j int) bool { return chks[i].Expr > chks[j].Expr })
		for _, k := range chks {
			if k.Name != "" {
				defs = append(defs, "CONSTRAINT "+k.Name+" CHECK "+ExprText(k.Expr))
			} else {
				defs = append(defs, "CHECK "+ExprText(k.Expr))
			}
		}
		for _, f := range t.Fks {
			defs = append(defs, fmt.Sprintf("CONSTRAINT %s FOREIGN KEY (%s) REFERENCES %s (%s) ON UPDATE %s ON DELETE %s", f.Name, f.Col, f.Ref, f.RefCol, f.OnUpd, f.OnDel))
		}
		s := "CREATE TABLE " + tn + " (" + strings.Join(defs, ", ") + ")"
		var opts []string
		if t.Worowid {
			opts = append(opts, "WITHOUT ROWID")
		}
		if t.Strict {
			opts = append(opts, "STRICT")
		}
		if len(opts) > 0 {
			s += " " + strings.Join(opts, ", ")
		}
		out = append(out, s)
	}
	for _, tn := range TableNames {
		t := st[tn]
		for _, x := range t.Idx {
			s := "CREATE "
			if x.Unique {
				s += "UNIQUE "
			}
			var ps []string
			for _, p := range x.Parts {
				if p.Desc {
					ps = append(ps, p.C+" DESC")
				} else {
					ps = append(ps, p.C)
				}
			}
			s += "INDEX " + x.Name + " ON " + tn + " (" + strings.Join(ps, ", ") + ")"
			if x.Where != "" {
				s += " WHERE " + wherePrd
			}
			out = append(out, s)
		}
	}
	return out
}

// ---------------------------------------------------------------- desired schema objects

func action(a string) schema.ReferenceOption { return schema.ReferenceOption(a) }

// Build instantiates the abstract state as schema.Schema objects of the SQLite dialect.
func Build(st State) *schema.Schema {
	s := schema.New("main")
	tabs := map[string]*schema.Table{}
	for _, tn := range TableNames {
		a := st[tn]
		if !a.Present() {
			continue
		}
		t := schema.NewTable(tn).SetSchema(s)
		tabs[tn] = t
		for _, cn := range a.ColList() {
			c := a.Cols[cn]
			var ct *schema.ColumnType
			if c.Type == "INT" {
				ct = &schema.ColumnType{Type: &schema.IntegerType{T: "integer"}, Raw: "integer", Null: c.Null}
			} else {
				ct = &schema.ColumnType{Type: &schema.StringType{T: "text"}, Raw: "text", Null: c.Null}
			}
			col := &schema.Column{Name: cn, Type: ct}
			if c.Dflt != "none" {
				col.Default = &schema.Literal{V: "'1'"}
			}
			if c.Gen != "" {
				col.SetGeneratedExpr(&schema.GeneratedExpr{Expr: genExpr, Type: strings.ToUpper(c.Gen)})
			}
			t.AddColumns(col)
		}
		s.AddTables(t)
	}
	for _, tn := range TableNames {
		t, ok := tabs[tn]
		if !ok {
			continue
		}
		a := st[tn]
		if len(a.Pk) > 0 {
			var cs []*schema.Column
			for _, c := range a.Pk {
				col, _ := t.Column(c)
				cs = append(cs, col)
			}
			t.SetPrimaryKey(schema.NewPrimaryKey(cs...))
			if a.Autoinc {
				cs[0].AddAttrs(&sqlite.AutoIncrement{})
			}
		}
		if a.Worowid {
			t.AddAttrs(&sqlite.WithoutRowID{})
		}
		if a.Strict {
			t.AddAttrs(&sqlite.Strict{})
		}
		for _, x := range a.Idx {
			ix := schema.NewIndex(x.Name).SetUnique(x.Unique)
			for _, p := range x.Parts {
				col, _ := t.Column(p.C)
				ix.AddParts(&schema.IndexPart{C: col, Desc: p.Desc})
			}
			if x.Where != "" {
				ix.AddAttrs(&sqlite.IndexPredicate{P: wherePrd})
			}
			t.AddIndexes(ix)
		}
		for _, g := range a.Fks {
			col, _ := t.Column(g.Col)
			rt := tabs[g.Ref]
			rc, _ := rt.Column(g.RefCol)
			t.AddForeignKeys(schema.NewForeignKey(g.Name).SetTable(t).AddColumns(col).SetRefTable(rt).AddRefColumns(rc).SetOnUpdate(action(g.OnUpd)).SetOnDelete(action(g.OnDel)))
		}
		for _, k := range a.Chk {
			c := schema.NewCheck().SetExpr(ExprText(k.Expr))
			if k.Name != "" {
				c.SetName(k.Name)
			}
			t.AddChecks(c)
		}
	}
	return s
}

// ---------------------------------------------------------------- independent projection

var (
	reAutoinc = regexp.MustCompile(`(?i)\bAUTOINCREMENT\b`)
	reFKName  = regexp.MustCompile("(?i)CONSTRAINT\\s+[`\"]?(\\w+)[`\"]?\\s+FOREIGN\\s+KEY\\s*\\(\\s*[`\"]?(\\w+)[`\"]?")
	reCheck   = regexp.MustCompile("(?i)(?:CONSTRAINT\\s+[`\"]?(\\w+)[`\"]?\\s+)?CHECK\\s*\\(")
	reWhere   = regexp.MustCompile(`(?is)\)\s*WHERE\s+(.*)$`)
	reSpace   = regexp.MustCompile(`\s+`)
)

func normExpr(e string) string {
	e = strings.NewReplacer("`", "", "\"", "").Replace(e)
	e = reSpace.ReplaceAllString(strings.TrimSpace(e), " ")
	for strings.HasPrefix(e, "((") && strings.HasSuffix(e, "))") {
		e = e[1 : len(e)-1]
	}
	if !strings.HasPrefix(e, "(") {
		e = "(" + e + ")"
	}
	switch e {
	case exprE1:
		return "e1"
	case exprE2:
		return "e2"
	}
	return e
}

func checksOf(sqlText string) []Chk {
	out := []Chk{}
	for _, m := range reCheck.FindAllStringSubmatchIndex(sqlText, -1) {
		name := ""
		if m[2] >= 0 {
			name = sqlText[m[2]:m[3]]
		}
		// balanced parentheses from the '(' that ends the match
		depth, j := 0, m[1]-1
		start := j
		for ; j < len(sqlText); j++ {
			switch sqlText[j] {
			case '\'':
				// a string literal: up to the next quote (a doubled quote re-opens immediately)
				for j++; j < len(sqlText) && sqlText[j] != '\''; j++ {
				}
			case '(':
				depth++
			case ')':
				depth--
			}
			if depth == 0 {
				break
			}
		}
		if j >= len(sqlText) {
			continue
		}
		out = append(out, Chk{Name: name, Expr: normExpr(sqlText[start : j+1])})
	}
	sort.Slice(out, func(i, j int) bool { return out[i].Name+"|"+out[i].Expr < out[j].Name+"|"+out[j].Expr })
	return out
}

// Project reads the database through pragmas and sqlite_master only.
func Project(db *sql.DB) (State, error) {
	st := State{}
	for _, tn := range TableNames {
		st[tn] = AbsentTable()
	}
	type trow struct{ name, sqlText string }
	rows, err := db.Query(`SELECT name, sql FROM sqlite_master WHERE type = 'table' AND name NOT LIKE 'sqlite_%' ORDER BY name`)
	if err != nil {
		return nil, err
	}
	var ts []trow
	for rows.Next() {
		var r trow
		if err := rows.Scan(&r.name, &r.sqlText); err != nil {
			return nil, err
		}
		ts = append(ts, r)
	}
	rows.Close()
	for _, tr := range ts {
		t := AbsentTable()
		known := false
		for _, n := range TableNames {
			known = known || n == tr.name
		}
		if !known {
			// an unexpected table (e.g. a leftover new_t1): keep it visible in the projection
			st[tr.name] = t
		}
		var wr, strict int
		if err := db.QueryRow(`SELECT wr, strict FROM pragma_table_list(?)`, tr.name).Scan(&wr, &strict); err != nil {
			return nil, fmt.Errorf("table_list %s: %w", tr.name, err)
		}
		t.Worowid, t.Strict = wr == 1, strict == 1
		t.Autoinc = reAutoinc.MatchString(tr.sqlText)
		cr, err := db.Query(`SELECT name, type, "notnull", dflt_value, pk, hidden FROM pragma_table_xinfo(?) ORDER BY cid`, tr.name)
		if err != nil {
			return nil, err
		}
		pk := map[int]string{}
		for cr.Next() {
			var (
				name, typ    string
				notnull, pkn int
				hidden       int
				dflt         sql.NullString
			)
			if err := cr.Scan(&name, &typ, &notnull, &dflt, &pkn, &hidden); err != nil {
				return nil, err
			}
			c := Col{Null: notnull == 0, Dflt: "none"}
			switch strings.ToLower(strings.Fields(typ + " x")[0]) {
			case "integer", "int":
				c.Type = "INT"
			case "text":
				c.Type = "TEXT"
			default:
				c.Type = typ
			}
			if dflt.Valid {
				// '1' and 1 are the same default for a column with INTEGER affinity
				if dflt.String == "'1'" || dflt.String == "1" && c.Type == "INT" || c.Type == "INT" && isOne(dflt.String) {
					c.Dflt = "d1"
				} else {
					c.Dflt = dflt.String
				}
			}
			switch hidden {
			case 2:
				c.Gen = "virtual"
			case 3:
				c.Gen = "stored"
			}
			if pkn > 0 {
				pk[pkn] = name
				// a rowid-table primary key column is implicitly NOT NULL only for INTEGER PRIMARY KEY / WITHOUT ROWID; report the declared flag
			}
			t.Cols[name] = c
		}
		cr.Close()
		for i := 1; i <= len(pk); i++ {
			t.Pk = append(t.Pk, pk[i])
		}
		// indexes created by CREATE INDEX (origin c)
		ir, err := db.Query(`SELECT name, "unique", origin, partial FROM pragma_index_list(?)`, tr.name)
		if err != nil {
			return nil, err
		}
		type irow struct {
			name, origin    string
			unique, partial int
		}
		var is []irow
		for ir.Next() {
			var r irow
			if err := ir.Scan(&r.name, &r.unique, &r.origin, &r.partial); err != nil {
				return nil, err
			}
			is = append(is, r)
		}
		ir.Close()
		for _, r := range is {
			if r.origin == "pk" {
				continue
			}
			x := Idx{Name: r.name, Unique: r.unique == 1, Parts: []Part{}}
			if r.origin == "u" {
				x.Name = "<inline-unique>"
			}
			pr, err := db.Query(`SELECT name, "desc" FROM pragma_index_xinfo(?) WHERE key = 1 ORDER BY seqno`, r.name)
			if err != nil {
				return nil, err
			}
			for pr.Next() {
				var (
					n sql.NullString
					d int
				)
				if err := pr.Scan(&n, &d); err != nil {
					return nil, err
				}
				x.Parts = append(x.Parts, Part{C: n.String, Desc: d == 1})
			}
			pr.Close()
			for k := range x.Parts {
				if x.Parts[k].C == "" {
					// an expression part: take its text from the CREATE INDEX statement
					var isql sql.NullString
					db.QueryRow(`SELECT sql FROM sqlite_master WHERE type = 'index' AND name = ?`, r.name).Scan(&isql)
					x.Parts[k].C = "expr:" + exprPart(isql.String, k)
				}
			}
			if r.partial == 1 {
				var isql sql.NullString
				db.QueryRow(`SELECT sql FROM sqlite_master WHERE type = 'index' AND name = ?`, r.name).Scan(&isql)
				x.Where = "?"
				if m := reWhere.FindStringSubmatch(isql.String); m != nil {
					w := strings.Trim(reSpace.ReplaceAllString(strings.NewReplacer("`", "", "\"", "").Replace(m[1]), " "), " ()")
					if w == wherePrd {
						x.Where = "w1"
					} else {
						x.Where = w
					}
				}
			}
			t.Idx = append(t.Idx, x)
		}
		sort.Slice(t.Idx, func(i, j int) bool { return t.Idx[i].Name < t.Idx[j].Name })
		// foreign keys
		names := map[string]string{}
		for _, m := range reFKName.FindAllStringSubmatch(tr.sqlText, -1) {
			names[m[2]] = m[1]
		}
		fr, err := db.Query(`SELECT "table", "from", "to", on_update, on_delete FROM pragma_foreign_key_list(?) ORDER BY id, seq`, tr.name)
		if err != nil {
			return nil, err
		}
		for fr.Next() {
			var (
				g  Fk
				to sql.NullString
			)
			if err := fr.Scan(&g.Ref, &g.Col, &to, &g.OnUpd, &g.OnDel); err != nil {
				return nil, err
			}
			g.RefCol = to.String
			g.Name = names[g.Col]
			t.Fks = append(t.Fks, g)
		}
		fr.Close()
		sort.Slice(t.Fks, func(i, j int) bool { return t.Fks[i].Name < t.Fks[j].Name })
		t.Chk = checksOf(tr.sqlText)
		st[tr.name] = t
	}
	return st, nil
}

// exprPart returns the k-th (0-based) key part of a CREATE INDEX statement, blanks and quotes removed.
func exprPart(stmt string, k int) string {
	i := strings.Index(stmt, "(")
	if i < 0 {
		return "?"
	}
	depth, start, n := 0, i+1, 0
	for j := i; j < len(stmt); j++ {
		switch stmt[j] {
		case '(':
			depth++
		case ')':
			depth--
			if depth == 0 {
				if n == k {
					return clean(stmt[start:j])
				}
				return "?"
			}
		case ',':
			if depth == 1 {
				if n == k {
					return clean(stmt[start:j])
				}
				n++
				start = j + 1
			}
		}
	}
	return "?"
}

func clean(s string) string {
	s = strings.NewReplacer(" ", "", "`", "", "\"", "", "\n", "", "\t", "").Replace(s)
	for strings.HasPrefix(s, "(") && strings.HasSuffix(s, ")") {
		s = s[1 : len(s)-1]
	}
	return s
}

// Canon sorts the set-like fields so that two equal abstract states have equal JSON.
func Canon(st State) State {
	out := State{}
	for n, t := range st {
		t.Idx = append([]Idx{}, t.Idx...)
		t.Fks = append([]Fk{}, t.Fks...)
		t.Chk = append([]Chk{}, t.Chk...)
		if t.Pk == nil {
			t.Pk = []string{}
		}
		sort.Slice(t.Idx, func(i, j int) bool { return t.Idx[i].Name < t.Idx[j].Name })
		sort.Slice(t.Fks, func(i, j int) bool { return t.Fks[i].Name < t.Fks[j].Name })
		sort.Slice(t.Chk, func(i, j int) bool { return t.Chk[i].Name+"|"+t.Chk[i].Expr < t.Chk[j].Name+"|"+t.Chk[j].Expr })
		out[n] = t
	}
	return out
}
