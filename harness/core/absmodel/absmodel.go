// Package absmodel maps abstract SchemaModel.tla states to schema.Schema objects of a dialect and projects
// schema.Change lists to the descriptor records of DiffSpec.
package absmodel

import (
	"fmt"
	"sort"
	"strings"

	"ariga.io/atlas/sql/schema"
)

type (
	Col struct {
		Type string `json:"type"`
		Null bool   `json:"null"`
		Dflt string `json:"dflt"`
	}
	Part struct {
		C    string `json:"c"`
		Desc bool   `json:"desc"`
	}
	Idx struct {
		Name   string `json:"name"`
		Parts  []Part `json:"parts"`
		Unique bool   `json:"unique"`
	}
	Fk struct {
		Name   string `json:"name"`
		Col    string `json:"col"`
		Ref    string `json:"ref"`
		RefCol string `json:"refcol"`
		OnUpd  string `json:"onupd"`
		OnDel  string `json:"ondel"`
	}
	Chk struct {
		Name string `json:"name"`
		Expr string `json:"expr"`
	}
	Table struct {
		Cols    map[string]Col `json:"cols"`
		Pk      []string       `json:"pk"`
		Idx     []Idx          `json:"idx"`
		Fks     []Fk           `json:"fks"`
		Chk     []Chk          `json:"chk"`
		Comment string         `json:"comment"`
	}
	State map[string]Table

	Change struct {
		K  string   `json:"k"`
		T  string   `json:"t"`
		N  string   `json:"n"`
		F  []string `json:"f"`
		Ch []Change `json:"ch"`
	}
)

func (t Table) Present() bool {
	for _, c := range t.Cols {
		if c.Type != "-" {
			return true
		}
	}
	return false
}

type Dialect struct {
	Name     string
	T1, T2   func() *schema.ColumnType
	Comments bool
	Schema   string
}

func Expr(id string) string {
	switch id {
	case "e1":
		return "(a > 0)"
	case "e2":
		return "(a > 1)"
	}
	return id
}

func action(a string) schema.ReferenceOption {
	switch a {
	case "CASCADE":
		return schema.Cascade
	case "NO ACTION":
		return schema.NoAction
	case "SET NULL":
		return schema.SetNull
	case "RESTRICT":
		return schema.Restrict
	}
	return schema.ReferenceOption(a)
}

// Build instantiates an abstract state. perm != 0 permutes the declaration order of tables, columns stay ordered (a, b, c),
// indexes, foreign keys and checks are listed in another order.
func Build(d *Dialect, st State, perm int) *schema.Schema {
	s := schema.New(d.Schema)
	names := make([]string, 0, len(st))
	for n := range st {
		names = append(names, n)
	}
	sort.Strings(names)
	if perm%2 == 1 {
		for i, j := 0, len(names)-1; i < j; i, j = i+1, j-1 {
			names[i], names[j] = names[j], names[i]
		}
	}
	tabs := map[string]*schema.Table{}
	for _, n := range names {
		if !st[n].Present() {
			continue
		}
		t := schema.NewTable(n).SetSchema(s)
		tabs[n] = t
		cn := make([]string, 0)
		for c, r := range st[n].Cols {
			if r.Type != "-" {
				cn = append(cn, c)
			}
		}
		sort.Strings(cn)
		for _, c := range cn {
			r := st[n].Cols[c]
			ct := d.T1()
			if r.Type == "T2" {
				ct = d.T2()
			}
			ct.Null = r.Null
			col := &schema.Column{Name: c, Type: ct}
			if r.Dflt != "none" {
				col.Default = &schema.Literal{V: "'1'"}
			}
			t.AddColumns(col)
		}
		s.AddTables(t)
	}
	for _, n := range names {
		t, ok := tabs[n]
		if !ok {
			continue
		}
		a := st[n]
		if len(a.Pk) > 0 {
			var cs []*schema.Column
			for _, c := range a.Pk {
				col, _ := t.Column(c)
				cs = append(cs, col)
			}
			t.SetPrimaryKey(schema.NewPrimaryKey(cs...))
			if perm >= 2 {
				reverseParts(t.PrimaryKey)
			}
		}
		idx := append([]Idx{}, a.Idx...)
		sort.Slice(idx, func(i, j int) bool { return (idx[i].Name < idx[j].Name) != (perm >= 2) })
		for _, x := range idx {
			ix := schema.NewIndex(x.Name).SetUnique(x.Unique)
			for _, p := range x.Parts {
				col, _ := t.Column(p.C)
				ix.AddParts(&schema.IndexPart{C: col, Desc: p.Desc})
			}
			if perm >= 2 {
				reverseParts(ix)
			}
			t.AddIndexes(ix)
		}
		fks := append([]Fk{}, a.Fks...)
		sort.Slice(fks, func(i, j int) bool { return (fks[i].Name < fks[j].Name) != (perm >= 2) })
		for _, g := range fks {
			col, _ := t.Column(g.Col)
			rt := tabs[g.Ref]
			rc, _ := rt.Column(g.RefCol)
			fk := schema.NewForeignKey(g.Name).SetTable(t).AddColumns(col).SetRefTable(rt).AddRefColumns(rc).SetOnUpdate(action(g.OnUpd)).SetOnDelete(action(g.OnDel))
			t.AddForeignKeys(fk)
		}
		chk := append([]Chk{}, a.Chk...)
		sort.Slice(chk, func(i, j int) bool { return (chk[i].Name < chk[j].Name) != (perm >= 2) })
		for _, k := range chk {
			t.AddChecks(schema.NewCheck().SetName(k.Name).SetExpr(Expr(k.Expr)))
		}
		if d.Comments && a.Comment != "" {
			t.SetComment(a.Comment)
		}
	}
	return s
}

// reverseParts stores the key parts in another slice order; their position in the key is IndexPart.SeqNo and stays as it is.
func reverseParts(ix *schema.Index) {
	for i, j := 0, len(ix.Parts)-1; i < j; i, j = i+1, j-1 {
		ix.Parts[i], ix.Parts[j] = ix.Parts[j], ix.Parts[i]
	}
}

func bits(k schema.ChangeKind, m map[schema.ChangeKind]string) []string {
	var out []string
	for b, n := range m {
		if k&b != 0 {
			out = append(out, n)
			k &^= b
		}
	}
	if k != 0 {
		out = append(out, fmt.Sprintf("other:%d", uint(k)))
	}
	sort.Strings(out)
	return out
}

// Project turns a change list into sorted descriptor strings "kind table [sub-kind object flags]".
func Project(changes []schema.Change) []string {
	var out []string
	for _, c := range changes {
		switch c := c.(type) {
		case *schema.AddTable:
			out = append(out, "AddTable "+c.T.Name)
		case *schema.DropTable:
			out = append(out, "DropTable "+c.T.Name)
		case *schema.ModifyTable:
			for _, s := range c.Changes {
				out = append(out, "ModifyTable "+c.T.Name+" "+sub(s))
			}
			if len(c.Changes) == 0 {
				out = append(out, "ModifyTable "+c.T.Name+" <empty>")
			}
		default:
			out = append(out, fmt.Sprintf("%T", c))
		}
	}
	sort.Strings(out)
	return out
}

func sub(s schema.Change) string {
	switch s := s.(type) {
	case *schema.AddColumn:
		return "AddColumn " + s.C.Name
	case *schema.DropColumn:
		return "DropColumn " + s.C.Name
	case *schema.ModifyColumn:
		return "ModifyColumn " + s.To.Name + " " + strings.Join(bits(s.Change, map[schema.ChangeKind]string{schema.ChangeNull: "null", schema.ChangeType: "type", schema.ChangeDefault: "default", schema.ChangeCharset: "charset", schema.ChangeCollate: "collate",
			schema.ChangeComment: "comment", schema.ChangeGenerated: "generated"}), ",")
	case *schema.AddIndex:
		return "AddIndex " + s.I.Name
	case *schema.DropIndex:
		return "DropIndex " + s.I.Name
	case *schema.ModifyIndex:
		return "ModifyIndex " + s.To.Name + " " + strings.Join(bits(s.Change, map[schema.ChangeKind]string{schema.ChangeUnique: "unique", schema.ChangeParts: "parts"}), ",")
	case *schema.AddPrimaryKey:
		return "AddPK pk"
	case *schema.DropPrimaryKey:
		return "DropPK pk"
	case *schema.ModifyPrimaryKey:
		return "ModifyPK pk " + strings.Join(bits(s.Change, map[schema.ChangeKind]string{schema.ChangeParts: "parts"}), ",")
	case *schema.AddForeignKey:
		return "AddFK " + s.F.Symbol
	case *schema.DropForeignKey:
		return "DropFK " + s.F.Symbol
	case *schema.ModifyForeignKey:
		return "ModifyFK " + s.To.Symbol + " " + strings.Join(bits(s.Change, map[schema.ChangeKind]string{schema.ChangeColumn: "column", schema.ChangeRefTable: "reftable", schema.ChangeRefColumn: "refcolumn",
			schema.ChangeUpdateAction: "onupdate", schema.ChangeDeleteAction: "ondelete"}), ",")
	case *schema.AddCheck:
		return "AddCheck " + s.C.Name
	case *schema.DropCheck:
		return "DropCheck " + s.C.Name
	case *schema.ModifyCheck:
		return "ModifyCheck " + s.To.Name
	case *schema.AddAttr:
		if _, ok := s.A.(*schema.Comment); ok {
			return "Comment comment"
		}
	case *schema.ModifyAttr:
		if _, ok := s.To.(*schema.Comment); ok {
			return "Comment comment"
		}
		return fmt.Sprintf("ModifyAttr %T %+v -> %+v", s.To, s.From, s.To)
	case *schema.DropAttr:
		if _, ok := s.A.(*schema.Comment); ok {
			return "Comment comment"
		}
	}
	return fmt.Sprintf("%T", s)
}

// FoldRestrict: MySQL documents RESTRICT and NO ACTION as the same referential action; a ModifyFK whose only difference is
// between the two is no change for that dialect. The expectation is corrected from the two states.
func foldFK(d *Dialect, from, to State, table string, s Change) (Change, bool) {
	if d.Name != "mysql" || s.K != "ModifyFK" {
		return s, true
	}
	var a, b *Fk
	for i := range from[table].Fks {
		if from[table].Fks[i].Name == s.N {
			a = &from[table].Fks[i]
		}
	}
	for i := range to[table].Fks {
		if to[table].Fks[i].Name == s.N {
			b = &to[table].Fks[i]
		}
	}
	if a == nil || b == nil {
		return s, true
	}
	eq := func(x, y string) bool {
		n := func(v string) string {
			if v == "RESTRICT" {
				return "NO ACTION"
			}
			return v
		}
		return n(x) == n(y)
	}
	var f []string
	for _, fl := range s.F {
		if fl == "onupdate" && eq(a.OnUpd, b.OnUpd) || fl == "ondelete" && eq(a.OnDel, b.OnDel) {
			continue
		}
		f = append(f, fl)
	}
	s.F = f
	return s, len(f) > 0
}

// ExpectedFor is Expected with the dialect-specific equivalences applied (needs the two states).
func ExpectedFor(d *Dialect, from, to State, diff []Change) []string {
	var adj []Change
	for _, c := range diff {
		if c.K == "ModifyTable" {
			var ch []Change
			for _, s := range c.Ch {
				if s2, keep := foldFK(d, from, to, c.T, s); keep {
					ch = append(ch, s2)
				}
			}
			c.Ch = ch
		}
		adj = append(adj, c)
	}
	return Expected(d, adj)
}

// Expected renders the model's change set the same way. Comment changes are dropped for dialects without table comments.
func Expected(d *Dialect, diff []Change) []string {
	var out []string
	for _, c := range diff {
		switch c.K {
		case "AddTable", "DropTable":
			out = append(out, c.K+" "+c.T)
		case "ModifyTable":
			for _, s := range c.Ch {
				if s.K == "Comment" && !d.Comments {
					continue
				}
				f := append([]string{}, s.F...)
				sort.Strings(f)
				line := "ModifyTable " + c.T + " " + s.K + " " + s.N
				if strings.HasPrefix(s.K, "Modify") && s.K != "ModifyCheck" {
					line += " " + strings.Join(f, ",")
				}
				out = append(out, line)
			}
		}
	}
	sort.Strings(out)
	return out
}
