// scan: binds Lexer.tla / ScanTrace.tla to migrate.Scanner (property C08).
//
//	scan model <predictions.ndjson>                 S->C: the reference's predicted statement list vs the real scanner
//	scan trace <out.ndjson> <quick|thorough> <seed>  C->S: observations of real scans (enumerated, grammar-generated, random inputs)
package main

import (
	"bufio"
	"encoding/json"
	"fmt"
	"math/rand"
	"os"
	"regexp"
	"strings"
	"time"
	"unicode"

	"ariga.io/atlas/sql/migrate"
)

type optset struct {
	Name   string
	Domain string // core: used by a community driver; ext: not used by any
	O      migrate.ScannerOptions
}

var optsets = []optset{
	{"stmts", "core", migrate.ScannerOptions{MatchBeginAtomic: true, MatchDollarQuote: true}},
	{"mysql", "core", migrate.ScannerOptions{MatchBegin: true, BackslashEscapes: true, HashComments: true}},
	{"postgres", "core", migrate.ScannerOptions{MatchBegin: true, MatchBeginAtomic: true, MatchDollarQuote: true, EscapedStringExt: true}},
	{"sqlite", "core", migrate.ScannerOptions{MatchBegin: true}},
	{"go", "ext", migrate.ScannerOptions{MatchBegin: true, GoCommand: true}},
	{"trycatch", "ext", migrate.ScannerOptions{MatchBegin: true, MatchBeginTryCatch: true, BeginEndTerminator: true, GoCommand: true}},
	{"omit", "ext", migrate.ScannerOptions{MatchBegin: true, OmitDelimiter: true}},
}

var render = map[string]string{"sq": "'", "dq": "\"", "bt": "`", "sc": ";", "da": "-", "sl": "/", "st": "*", "nl": "\n", "sp": " ", "lp": "(", "rp": ")", "x": "x", "bs": "\\", "ha": "#"}

type scanRes struct {
	stmts []*migrate.Stmt
	err   error
	pan   string
	tmo   bool
}

func scanWith(o migrate.ScannerOptions, in string) scanRes {
	ch := make(chan scanRes, 1)
	go func() {
		var r scanRes
		defer func() {
			if p := recover(); p != nil {
				r.pan = fmt.Sprint(p)
			}
			ch <- r
		}()
		r.stmts, r.err = (&migrate.Scanner{ScannerOptions: o}).Scan(in)
	}()
	select {
	case r := <-ch:
		return r
	case <-time.After(3 * time.Second):
		return scanRes{tmo: true}
	}
}

// ---------------------------------------------------------------- model comparison

type pred struct {
	W []string `json:"w"`
	O struct {
		Bsesc bool `json:"bsesc"`
		Hash  bool `json:"hash"`
	} `json:"o"`
	R struct {
		Err bool    `json:"err"`
		Out [][]int `json:"out"`
	} `json:"r"`
}

func modelMode(path string) {
	f, err := os.Open(path)
	if err != nil {
		panic(err)
	}
	sc := bufio.NewScanner(f)
	sc.Buffer(make([]byte, 1<<20), 1<<26)
	type mm struct {
		Input string  `json:"input"`
		Opt   string  `json:"opt"`
		Want  any     `json:"want"`
		Got   any     `json:"got"`
		Kind  string  `json:"kind"`
	}
	var (
		n     int
		mism  = []mm{}
		samp  []any
	)
	for sc.Scan() {
		var p pred
		if err := json.Unmarshal(sc.Bytes(), &p); err != nil {
			panic(err)
		}
		n++
		var b strings.Builder
		for _, s := range p.W {
			b.WriteString(render[s])
		}
		in := b.String()
		o := migrate.ScannerOptions{BackslashEscapes: p.O.Bsesc, HashComments: p.O.Hash}
		r := scanWith(o, in)
		got := [][]int{}
		for _, s := range r.stmts {
			got = append(got, []int{s.Pos, len(s.Text)})
		}
		gotErr := r.err != nil
		same := gotErr == p.R.Err && r.pan == "" && !r.tmo
		if same && !gotErr {
			same = len(got) == len(p.R.Out)
			for i := 0; same && i < len(got); i++ {
				same = got[i][0] == p.R.Out[i][0] && got[i][1] == p.R.Out[i][1]
			}
		}
		if n%20011 == 5 && len(samp) < 3 {
			samp = append(samp, map[string]any{"input": in, "bsesc": p.O.Bsesc, "hash": p.O.Hash, "want_err": p.R.Err, "want": p.R.Out, "got": got})
		}
		if !same && len(mism) < 200 {
			kind := "tokenisation"
			if r.pan != "" || r.tmo {
				kind = "crash"
			}
			mism = append(mism, mm{in, fmt.Sprintf("bsesc=%v hash=%v", p.O.Bsesc, p.O.Hash), map[string]any{"err": p.R.Err, "out": p.R.Out}, map[string]any{"err": gotErr, "out": got, "panic": r.pan, "timeout": r.tmo}, kind})
		}
	}
	json.NewEncoder(os.Stdout).Encode(map[string]any{"cases": n, "mismatches": mism, "samples": samp})
}

// ---------------------------------------------------------------- observations

type stmtObs struct {
	Pos    int  `json:"pos"`
	Len    int  `json:"len"`
	TextOK bool `json:"textok"`
}
type obs struct {
	ID     int       `json:"id"`
	Opt    string    `json:"opt"`
	Domain string    `json:"domain"`
	Gen    string    `json:"gen"`
	N      int       `json:"n"`
	Res    string    `json:"res"`
	Stmts  []stmtObs `json:"stmts"`
	Gaps   []bool    `json:"gaps"`
	Input  string    `json:"input"`
	Msg    string    `json:"msg,omitempty"`
	Feat   []string  `json:"feat"`
}

var (
	reDelimCmd = regexp.MustCompile(`(?i)^delimiter [^\n]*(\n|$)`)
	reHeader   = regexp.MustCompile(`^-- atlas:delimiter[^\n]*(\n|$)`)
	reGoLine   = regexp.MustCompile(`(?i)^GO([ \t]+\d+)?[ \t]*(\n|$)`)
	// over-approximation of the delimiters that may be in effect: every "delimiter X" / "atlas:delimiter X" occurrence
	reDelimDef = regexp.MustCompile(`(?i)(?:delimiter |atlas:delimiter )([^\n]*)`)
)

// delimiters that may be in effect somewhere in the input
func delims(in string) []string {
	ds := []string{";"}
	for _, m := range reDelimDef.FindAllStringSubmatch(in, -1) {
		d := strings.TrimSpace(m[1])
		if strings.HasPrefix(d, "'") && strings.HasSuffix(d, "'") && len(d) >= 2 {
			d = strings.ReplaceAll(d[1:len(d)-1], "''", "'")
		}
		d = strings.NewReplacer(`\n`, "\n", `\r`, "\r", `\t`, "\t").Replace(d)
		if d != "" {
			ds = append(ds, d)
		}
		// the argument of a file directive is printable ASCII by the directive grammar: a value such as "x§" sets the delimiter "x"
		if i := strings.IndexFunc(m[1], func(r rune) bool { return r < ' ' || r > '~' }); i > 0 {
			if p := strings.TrimSpace(m[1][:i]); p != "" {
				ds = append(ds, strings.NewReplacer(`\n`, "\n", `\r`, "\r", `\t`, "\t").Replace(p))
			}
		}
	}
	return ds
}

// cleanGap: the text between two statements is only blanks, comments, delimiters, delimiter commands/directives, GO lines.
func cleanGap(g string, o migrate.ScannerOptions, ds []string, atLineStart bool) bool {
	for len(g) > 0 {
		r := rune(g[0])
		switch {
		case unicode.IsSpace(r) || r >= 0x80 && strings.TrimLeftFunc(g, unicode.IsSpace) != g:
			t := strings.TrimLeftFunc(g, unicode.IsSpace)
			g = t
		case strings.HasPrefix(g, "--"):
			if m := reHeader.FindString(g); m != "" {
				g = g[len(m):]
				continue
			}
			i := strings.Index(g, "\n")
			if i < 0 {
				return true
			}
			g = g[i+1:]
		case strings.HasPrefix(g, "#") && o.HashComments:
			i := strings.Index(g, "\n")
			if i < 0 {
				return true
			}
			g = g[i+1:]
		case strings.HasPrefix(g, "/*"):
			i := strings.Index(g[2:], "*/")
			if i < 0 {
				return false
			}
			g = g[2+i+2:]
		case reDelimCmd.MatchString(g):
			g = g[len(reDelimCmd.FindString(g)):]
		case o.GoCommand && reGoLine.MatchString(g):
			g = g[len(reGoLine.FindString(g)):]
		default:
			ok := false
			for _, d := range ds {
				if strings.HasPrefix(g, d) {
					g = g[len(d):]
					ok = true
					break
				}
			}
			if !ok {
				return false
			}
		}
	}
	return true
}

func features(in string) []string {
	var f []string
	for k, v := range map[string]string{"quote": "'", "dquote": "\"", "btick": "`", "dollar": "$", "paren": "(", "linec": "--", "blockc": "/*", "hash": "#", "bs": "\\",
		"delimcmd": "DELIMITER", "header": "atlas:delimiter", "begin": "BEGIN", "go": "GO", "utf8": "§"} {
		if strings.Contains(in, v) {
			f = append(f, k)
		}
	}
	return f
}

func observe(id int, gen string, os_ optset, in string) obs {
	r := scanWith(os_.O, in)
	o := obs{ID: id, Opt: os_.Name, Domain: os_.Domain, Gen: gen, N: len(in), Stmts: []stmtObs{}, Gaps: []bool{}, Input: in, Feat: features(in)}
	switch {
	case r.tmo:
		o.Res = "timeout"
	case r.pan != "":
		o.Res, o.Msg = "panic", r.pan
	case r.err != nil:
		o.Res, o.Msg = "err", r.err.Error()
	default:
		o.Res = "ok"
		ds := delims(in)
		prev := 0
		for _, s := range r.stmts {
			so := stmtObs{Pos: s.Pos, Len: len(s.Text)}
			if s.Pos >= 0 && s.Pos+len(s.Text) <= len(in) {
				so.TextOK = in[s.Pos:s.Pos+len(s.Text)] == s.Text
			}
			o.Stmts = append(o.Stmts, so)
			if s.Pos >= prev && s.Pos <= len(in) {
				o.Gaps = append(o.Gaps, cleanGap(in[prev:s.Pos], os_.O, ds, true))
			} else {
				o.Gaps = append(o.Gaps, false)
			}
			if e := s.Pos + len(s.Text); e > prev {
				prev = e
			}
		}
		if prev <= len(in) {
			o.Gaps = append(o.Gaps, cleanGap(in[prev:], os_.O, ds, true))
		}
	}
	return o
}

// grammar-based generator
var atoms = []string{
	"SELECT 1", "INSERT INTO t VALUES (1, 'a;b')", "CREATE TABLE t (id int, v text DEFAULT 'x''y')", "UPDATE t SET v = \"q;\" WHERE id = (SELECT 1)",
	"x", "'", "\"", "`", ";", ";\n", "\n", " ", "(", ")", "--", "-- c\n", "/*", "*/", "/* c; */", "#", "# h\n", "\\", "\\'", "''", "$$", "$tag$", "$$ body; $$", "$f$ a;b $f$",
	"BEGIN", "BEGIN ", "END", "END;", "BEGIN ATOMIC ", "BEGIN TRY ", "END TRY ", "BEGIN CATCH ", "END CATCH", "CREATE TRIGGER tr AFTER INSERT ON t BEGIN UPDATE t SET v = 1; END;",
	"CREATE FUNCTION f() RETURNS int LANGUAGE SQL BEGIN ATOMIC SELECT 1; SELECT 2; END;", "DELIMITER //\n", "DELIMITER ;\n", "delimiter $$\n", "//", "//\n", "DELIMITER '\n", "DELIMITER §\n", "§",
	"GO\n", "GO 2\n", "\nGO\n", "E'a\\'b'", "e'\\\\'", "-- atlas:nolint\n", "-- atlas:txmode none\n\n", "COMMENT 'it''s'", "`a``b`", "\"a\"\"b\"", "\t", "\r\n", "ü", "—",
}

func gen(rng *rand.Rand) string {
	var b strings.Builder
	if rng.Intn(12) == 0 {
		// the directive at the very start, or after blank space (then it may or may not count as the directive: positions must be right either way)
		if rng.Intn(3) == 0 {
			b.WriteString([]string{"\n", "  ", "\t\n", "\r\n", " \n\n"}[rng.Intn(5)])
		}
		b.WriteString([]string{"-- atlas:delimiter //\n", "-- atlas:delimiter \\n\\n\n", "-- atlas:delimiter ;;\n", "-- atlas:delimiter -- end\n"}[rng.Intn(4)])
	}
	n := 1 + rng.Intn(9)
	for i := 0; i < n; i++ {
		b.WriteString(atoms[rng.Intn(len(atoms))])
		if rng.Intn(3) == 0 {
			b.WriteString([]string{" ", "\n", ";", ";\n", "//\n", "\n\n"}[rng.Intn(6)])
		}
	}
	return b.String()
}

const hostile = "'\";-/*\n ()\\#$`"

type lean struct {
	ID     int       `json:"id"`
	Domain string    `json:"domain"`
	N      int       `json:"n"`
	Res    string    `json:"res"`
	Stmts  []stmtObs `json:"stmts"`
	Gaps   []bool    `json:"gaps"`
}

func traceMode(out, tier string, seed int64) {
	f, err := os.Create(out)
	if err != nil {
		panic(err)
	}
	w := bufio.NewWriterSize(f, 1<<20)
	f2, err := os.Create(out + ".full")
	if err != nil {
		panic(err)
	}
	w2 := bufio.NewWriterSize(f2, 1<<20)
	defer func() { w2.Flush(); f2.Close() }()
	rng := rand.New(rand.NewSource(seed))
	id := 0
	counts := map[string]int{}
	res := map[string]int{}
	feats := map[string]int{}
	var samples []obs
	emit := func(gen_, in string) {
		for _, os_ := range optsets {
			id++
			o := observe(id, gen_, os_, in)
			b, _ := json.Marshal(lean{o.ID, o.Domain, o.N, o.Res, o.Stmts, o.Gaps})
			w.Write(b)
			w.WriteByte('\n')
			if o.Feat == nil {
				o.Feat = []string{}
			}
			b, _ = json.Marshal(o)
			w2.Write(b)
			w2.WriteByte('\n')
			counts[gen_]++
			res[os_.Domain+":"+o.Res]++
			if id%30011 == 11 && len(samples) < 4 {
				samples = append(samples, o)
			}
		}
		for _, ft := range features(in) {
			feats[ft]++
		}
	}
	// (1) exhaustive over a compact rendered alphabet
	alpha := []string{"'", "\"", ";", "-", "/", "*", "\n", " ", "(", ")", "x", "\\", "#", "$"}
	maxLen := 4
	if tier == "thorough" {
		maxLen = 5
	}
	var rec func(cur string, k int)
	rec = func(cur string, k int) {
		emit("enum", cur)
		if k == maxLen {
			return
		}
		for _, a := range alpha {
			rec(cur+a, k+1)
		}
	}
	rec("", 0)
	// (2) grammar-based
	ng := 6000
	if tier == "thorough" {
		ng = 120000
	}
	for i := 0; i < ng; i++ {
		emit("grammar", gen(rng))
	}
	// (2b) directed: every delimiter of the list (several start with a multi-byte rune) set by a DELIMITER command or by the file directive,
	// followed by two statements that end with it - with and without a line break after the delimiter, with the delimiter inside a literal
	for _, d := range []string{"//", "$$", ";;", "§", "§§", "—", "ü;", "§x", "x§"} {
		for _, s1 := range []string{"SELECT 1", "x", "INSERT INTO t VALUES ('a" + d + "b')"} {
			for _, s2 := range []string{"SELECT 2", "y", "UPDATE t SET v = 'ü'"} {
				for _, nl := range []string{"\n", "", " "} {
					emit("directed", "DELIMITER "+d+"\n"+s1+d+nl+s2+d+nl)
					emit("directed", "DELIMITER "+d+"\n"+s1+d+nl+s2)
					emit("directed", "-- atlas:delimiter "+d+"\n"+s1+d+nl+s2+d+nl)
					emit("directed", "-- atlas:delimiter "+d+"\n\n"+s1+d+nl+s2+d)
				}
			}
		}
	}
	// (3) random bytes
	nr := 2000
	if tier == "thorough" {
		nr = 40000
	}
	for i := 0; i < nr; i++ {
		b := make([]byte, rng.Intn(40))
		for k := range b {
			if rng.Intn(3) == 0 {
				b[k] = hostile[rng.Intn(len(hostile))]
			} else {
				b[k] = byte(rng.Intn(256))
			}
		}
		emit("random", string(b))
	}
	w.Flush()
	f.Close()
	json.NewEncoder(os.Stdout).Encode(map[string]any{"observations": id, "inputs_by_generator": counts, "results": res, "features": feats, "samples": samples})
}

func main() {
	switch os.Args[1] {
	case "model":
		modelMode(os.Args[2])
	case "trace":
		var seed int64
		fmt.Sscan(os.Args[4], &seed)
		traceMode(os.Args[2], os.Args[3], seed)
	}
}
