// determ: executes the same operation on the same input repeatedly - sequentially, concurrently with unrelated
// operations, (by the caller) in several processes, and on permuted sources - and writes one observation per execution
// for Observe.tla (C20).
//
//	determ -n 3 -sample 0.2 -seed 1 -runs 3 -conc 2 -perms 3 -out obs.ndjson -tmp <dir>
//
// Inputs: foreign-key scenarios (graph over n tables x role of every table: created / dropped / kept) per dialect, the schema
// at the end of the scenario as HCL, and migration directories over a fixed name catalogue (including equal version prefixes).
package main

import (
	"bufio"
	"context"
	"crypto/sha256"
	"encoding/hex"
	"encoding/json"
	"flag"
	"fmt"
	"math/rand"
	"os"
	"path/filepath"
	"regexp"
	"sort"
	"strings"
	"sync"

	"ariga.io/atlas/sql/migrate"
	"ariga.io/atlas/sql/mysql"
	"ariga.io/atlas/sql/postgres"
	"ariga.io/atlas/sql/schema"
	"ariga.io/atlas/sql/sqlite"
)

type ev map[string]any

var (
	mu    sync.Mutex
	out   *bufio.Writer
	names = []string{"a", "b", "c", "d", "e", "f", "g", "h"}
	docs  []map[string]string
)

func emit(e ev) {
	b, _ := json.Marshal(e)
	mu.Lock()
	out.Write(b)
	out.WriteByte('\n')
	mu.Unlock()
}

func dig(parts ...string) string {
	h := sha256.New()
	for _, p := range parts {
		h.Write([]byte(p))
		h.Write([]byte{0})
	}
	return hex.EncodeToString(h.Sum(nil))[:16]
}

type dialect struct {
	name    string
	schema  string
	intT    func() *schema.ColumnType
	plan    migrate.PlanApplier
	differ  schema.Differ
	marshal func(any) ([]byte, error)
	eval    func([]byte, any) error
}

func dialects() []*dialect {
	it := func(n string) func() *schema.ColumnType {
		return func() *schema.ColumnType { return &schema.ColumnType{Type: &schema.IntegerType{T: n}, Raw: n} }
	}
	return []*dialect{
		{"mysql", "app", it("int"), mysql.DefaultPlan, mysql.DefaultDiff, mysql.MarshalHCL.MarshalSpec, func(b []byte, v any) error { return mysql.EvalHCLBytes(b, v, nil) }},
		{"postgres", "public", it("integer"), postgres.DefaultPlan, postgres.DefaultDiff, postgres.MarshalHCL.MarshalSpec, func(b []byte, v any) error { return postgres.EvalHCLBytes(b, v, nil) }},
		{"sqlite", "main", it("integer"), sqlite.DefaultPlan, sqlite.DefaultDiff, sqlite.MarshalHCL.MarshalSpec, func(b []byte, v any) error { return sqlite.EvalHCLBytes(b, v, nil) }},
	}
}

type world struct {
	s      *schema.Schema
	tables []*schema.Table
	fk     map[[2]int]*schema.ForeignKey
}

// build creates fresh objects on every call: nothing is shared between executions.
func build(d *dialect, n int, edges [][2]int) *world {
	w := &world{s: schema.New(d.schema), fk: map[[2]int]*schema.ForeignKey{}}
	for i := 0; i < n; i++ {
		t := schema.NewTable(names[i]).SetSchema(w.s)
		id := &schema.Column{Name: "id", Type: d.intT()}
		t.AddColumns(id)
		t.SetPrimaryKey(schema.NewPrimaryKey(id))
		w.tables = append(w.tables, t)
	}
	for _, e := range edges {
		c, p := w.tables[e[0]], w.tables[e[1]]
		col := &schema.Column{Name: p.Name + "_id", Type: d.intT()}
		if e[0] == e[1] {
			col.Name = "self_id"
		}
		c.AddColumns(col)
		w.fk[e] = schema.NewForeignKey(fmt.Sprintf("fk_%s_%s", c.Name, p.Name)).SetTable(c).AddColumns(col).SetRefTable(p).AddRefColumns(p.Columns[0]).
			SetOnDelete(schema.NoAction).SetOnUpdate(schema.NoAction)
	}
	return w
}

// changes derives the change set of (graph, roles); end = the tables (with their foreign keys) that exist afterwards.
func changes(w *world, n int, edges [][2]int, roles string) (cs []schema.Change, end *schema.Schema) {
	startF, endF, addF, dropF := map[int][]*schema.ForeignKey{}, map[int][]*schema.ForeignKey{}, map[int][]*schema.ForeignKey{}, map[int][]*schema.ForeignKey{}
	for _, e := range edges {
		c, pa := e[0], e[1]
		fk := w.fk[e]
		switch rc, rp := roles[c], roles[pa]; {
		case rc == 'c' && rp != 'd':
			endF[c] = append(endF[c], fk)
		case rc == 'd' && rp != 'c':
			startF[c] = append(startF[c], fk)
		case rc == 'k' && rp == 'c':
			addF[c] = append(addF[c], fk)
			endF[c] = append(endF[c], fk)
		case rc == 'k' && rp == 'd':
			dropF[c] = append(dropF[c], fk)
			startF[c] = append(startF[c], fk)
		case rc == 'k' && rp == 'k':
			if c <= pa {
				addF[c] = append(addF[c], fk)
				endF[c] = append(endF[c], fk)
			} else {
				dropF[c] = append(dropF[c], fk)
				startF[c] = append(startF[c], fk)
			}
		}
	}
	end = schema.New(w.s.Name)
	for i := 0; i < n; i++ {
		switch roles[i] {
		case 'c':
			w.tables[i].ForeignKeys = endF[i]
			cs = append(cs, &schema.AddTable{T: w.tables[i]})
		case 'd':
			w.tables[i].ForeignKeys = startF[i]
			cs = append(cs, &schema.DropTable{T: w.tables[i]})
		case 'k':
			w.tables[i].ForeignKeys = endF[i]
			var m []schema.Change
			for _, fk := range addF[i] {
				m = append(m, &schema.AddForeignKey{F: fk})
			}
			for _, fk := range dropF[i] {
				m = append(m, &schema.DropForeignKey{F: fk})
			}
			if len(m) > 0 {
				cs = append(cs, &schema.ModifyTable{T: w.tables[i], Changes: m})
			}
		}
		if roles[i] != 'd' {
			// only foreign keys whose referenced table also exists at the end
			t := w.tables[i]
			end.Tables = append(end.Tables, t)
		}
	}
	return cs, end
}

type input struct {
	d     *dialect
	n     int
	edges [][2]int
	roles string
}

func (in *input) key() string {
	var es []string
	for _, e := range in.edges {
		es = append(es, names[e[0]]+">"+names[e[1]])
	}
	return fmt.Sprintf("%s/%d/%s/%s", in.d.name, in.n, strings.Join(es, ","), in.roles)
}

type result struct {
	plan, file, sum, sorted, err string
	replan                       string
	maxparents                   int
}

// execute runs plan -> format -> hash once, on objects of its own.
func execute(in *input) result {
	w := build(in.d, in.n, in.edges)
	cs, _ := changes(w, in.n, in.edges, in.roles)
	var r result
	for _, t := range w.tables {
		if len(t.ForeignKeys) > r.maxparents {
			r.maxparents = len(t.ForeignKeys)
		}
	}
	if len(cs) == 0 {
		r.err = "no changes"
		return r
	}
	pl, err := in.d.plan.PlanChanges(context.Background(), "plan", cs)
	if err != nil {
		r.err = "plan: " + err.Error()
		return r
	}
	var cmds []string
	for _, c := range pl.Changes {
		cmds = append(cmds, c.Cmd)
	}
	r.plan = dig(cmds...)
	// the same change objects planned once more: planning must not have altered its input
	if pl2, err := in.d.plan.PlanChanges(context.Background(), "plan", cs); err != nil {
		r.replan = "error: " + err.Error()
	} else {
		var c2 []string
		for _, c := range pl2.Changes {
			c2 = append(c2, c.Cmd)
		}
		r.replan = dig(c2...)
	}
	s := append([]string{}, cmds...)
	sort.Strings(s)
	r.sorted = dig(s...)
	pl.Version = "1"
	files, err := migrate.DefaultFormatter.Format(pl)
	if err != nil {
		r.err = "format: " + err.Error()
		return r
	}
	dir := &migrate.MemDir{}
	var fb []string
	for _, f := range files {
		fb = append(fb, f.Name(), string(f.Bytes()))
		if err := dir.WriteFile(f.Name(), f.Bytes()); err != nil {
			r.err = "write: " + err.Error()
			return r
		}
	}
	r.file = dig(fb...)
	hf, err := dir.Checksum()
	if err != nil {
		r.err = "checksum: " + err.Error()
		return r
	}
	b, _ := hf.MarshalText()
	r.sum = dig(string(b))
	return r
}

func obsPlan(in *input, variant string, k int, r result) {
	emit(ev{"ev": "obs", "op": "plan", "input": in.key(), "variant": variant, "k": k, "plan": r.plan, "file": r.file, "sum": r.sum, "sorted": r.sorted,
		"same_schema": true, "err": r.err, "maxparents": r.maxparents})
	if r.err == "" && variant != "conc" {
		// second planning of the same objects, as one more execution of op "replan"(input): first the fresh plan, then the repeated one
		emit(ev{"ev": "obs", "op": "replan", "input": in.key(), "variant": variant, "k": 2 * k, "plan": r.plan, "file": "", "sum": "", "sorted": "", "same_schema": true, "err": "", "maxparents": r.maxparents})
		emit(ev{"ev": "obs", "op": "replan", "input": in.key(), "variant": variant, "k": 2*k + 1, "plan": r.replan, "file": "", "sum": "", "sorted": "", "same_schema": true, "err": "", "maxparents": r.maxparents})
	}
}

// ---- HCL ---------------------------------------------------------------------------------------------

// blocks splits a marshalled document into its top-level blocks.
func blocks(doc string) []string {
	var bs []string
	var cur []string
	for _, l := range strings.Split(doc, "\n") {
		cur = append(cur, l)
		if l == "}" {
			bs = append(bs, strings.Join(cur, "\n")+"\n")
			cur = nil
		}
	}
	return bs
}

func planFromEmpty(d *dialect, s *schema.Schema) (string, string, error) {
	cs, err := d.differ.SchemaDiff(schema.New(s.Name), s)
	if err != nil {
		return "", "", err
	}
	if len(cs) == 0 {
		return dig(), dig(), nil
	}
	pl, err := d.plan.PlanChanges(context.Background(), "plan", cs)
	if err != nil {
		return "", "", err
	}
	var cmds []string
	for _, c := range pl.Changes {
		cmds = append(cmds, c.Cmd)
	}
	p := dig(cmds...)
	sort.Strings(cmds)
	return p, dig(cmds...), nil
}

func hclOf(in *input) (string, error) {
	w := build(in.d, in.n, in.edges)
	_, end := changes(w, in.n, in.edges, in.roles)
	// the end state as a self-contained schema: drop foreign keys to tables that do not exist in it
	s := schema.New(in.d.schema)
	keep := map[*schema.Table]bool{}
	for _, t := range end.Tables {
		keep[t] = true
	}
	for _, t := range end.Tables {
		var fks []*schema.ForeignKey
		for _, fk := range t.ForeignKeys {
			if keep[fk.RefTable] {
				fks = append(fks, fk)
			}
		}
		t.ForeignKeys = fks
		t.Schema = s
		s.Tables = append(s.Tables, t)
	}
	b, err := in.d.marshal(s)
	return string(b), err
}

// heldBytes: the []byte results of earlier marshals, kept (not copied) while other documents are marshalled, with the text they had
// when they were returned; checked at the end of the run (a result must not change after it was handed out).
var held []struct {
	key  string
	b    []byte
	text string
}

func hold(in *input) {
	if len(held) >= 3000 {
		return
	}
	w := build(in.d, in.n, in.edges)
	_, end := changes(w, in.n, in.edges, in.roles)
	s := schema.New(in.d.schema)
	for _, t := range end.Tables {
		t.ForeignKeys = nil
		t.Schema = s
		s.Tables = append(s.Tables, t)
	}
	b, err := in.d.marshal(s)
	if err != nil {
		return
	}
	held = append(held, struct {
		key  string
		b    []byte
		text string
	}{in.key(), b, string(b)})
}

func checkHeld() {
	for k, h := range held {
		emit(ev{"ev": "obs", "op": "marshal-held", "input": h.key, "variant": "run", "k": 2 * k, "plan": "", "file": dig(h.text), "sum": "", "sorted": "", "same_schema": true, "err": "", "maxparents": 0})
		emit(ev{"ev": "obs", "op": "marshal-held", "input": h.key, "variant": "run", "k": 2*k + 1, "plan": "", "file": dig(string(h.b)), "sum": "", "sorted": "", "same_schema": true, "err": "", "maxparents": 0})
	}
}

var rePos = regexp.MustCompile(`:?\d+,\d+-\d+:?`)

// multiSchemaDocs: documents over two schemas; the same blocks in every order must evaluate to the same thing - the same error when
// a reference is ambiguous, the same statements otherwise.
func multiSchemaDocs(d *dialect) map[string][]string {
	if d.name == "sqlite" {
		return nil
	}
	ty := "int"
	if d.name == "postgres" {
		ty = "integer"
	}
	tbl2 := func(sc, name, extra string) string {
		return fmt.Sprintf("table %q %q {\n  schema = schema.%s\n  column \"id\" {\n    null = false\n    type = %s\n  }\n%s}\n", sc, name, sc, ty, extra)
	}
	// one label: the schema is given by the attribute only, references are written table.<name>
	tbl := func(sc, name, extra string) string {
		return fmt.Sprintf("table %q {\n  schema = schema.%s\n  column \"id\" {\n    null = false\n    type = %s\n  }\n%s}\n", name, sc, ty, extra)
	}
	fk := func(ref string) string {
		return fmt.Sprintf("  column \"user_id\" {\n    null = true\n    type = %s\n  }\n  foreign_key \"fk_user\" {\n    columns = [column.user_id]\n    ref_columns = [%s.column.id]\n  }\n", ty, ref)
	}
	pk := "  primary_key {\n    columns = [column.id]\n  }\n"
	sa, sb := "schema \"a\" {\n}\n", "schema \"b\" {\n}\n"
	return map[string][]string{
		// the reference table.users is ambiguous: both schemas hold a table of that name
		"ambiguous-reference": {sa, sb, tbl("a", "users", pk), tbl("b", "users", pk), tbl("a", "orders", fk("table.users"))},
		// qualified references
		"qualified-reference": {sa, sb, tbl2("a", "users", pk), tbl2("b", "users", pk), tbl2("a", "orders", fk("table.a.users")), tbl2("b", "orders", fk("table.b.users"))},
		// unambiguous unqualified reference across schemas
		"unique-reference": {sa, sb, tbl("a", "users", pk), tbl("b", "orders", fk("table.users"))},
	}
}

func runMultiSchema(rng *rand.Rand) {
	for _, d := range dialects() {
		for label, blocks := range multiSchemaDocs(d) {
			key := d.name + "/multi-schema/" + label
			eval := func(doc string) (string, string, string) {
				var r schema.Realm
				if err := d.eval([]byte(doc), &r); err != nil {
					// positions inside the document move with the blocks
					return "", "", "eval: " + rePos.ReplaceAllString(err.Error(), "")
				}
				var all, sorted []string
				for _, s := range r.Schemas {
					cs, err := d.differ.SchemaDiff(schema.New(s.Name), s)
					if err != nil {
						return "", "", "diff: " + err.Error()
					}
					if len(cs) == 0 {
						continue
					}
					pl, err := d.plan.PlanChanges(context.Background(), "plan", cs)
					if err != nil {
						return "", "", "plan: " + err.Error()
					}
					for _, c := range pl.Changes {
						all = append(all, c.Cmd)
					}
				}
				sorted = append(sorted, all...)
				sort.Strings(sorted)
				return dig(all...), dig(sorted...), ""
			}
			p0, s0, e0 := eval(strings.Join(blocks, ""))
			emit(ev{"ev": "obs", "op": "hcl", "input": key, "variant": "run", "k": 0, "plan": p0, "file": "", "sum": "", "sorted": s0, "same_schema": true, "err": e0, "maxparents": 0})
			for k := 1; k <= 12; k++ {
				pb := append([]string{}, blocks...)
				rng.Shuffle(len(pb), func(i, j int) { pb[i], pb[j] = pb[j], pb[i] })
				doc := strings.Join(pb, "")
				p1, s1, e1 := eval(doc)
				o := ev{"ev": "obs", "op": "hcl", "input": key, "variant": "perm", "k": k, "plan": p1, "file": "", "sum": "", "sorted": s1, "same_schema": true, "err": e1, "maxparents": 0}
				if s1 != s0 || e1 != e0 {
					o["doc"] = doc
				}
				emit(o)
			}
		}
	}
}

func runHCL(in *input, tag string, runs, perms int, rng *rand.Rand) {
	key := in.key()
	doc, err := hclOf(in)
	if in.d.name == "sqlite" && len(docs) < 400 {
		docs = append(docs, map[string]string{"input": key, "doc": doc})
	}
	if err != nil {
		emit(ev{"ev": "obs", "op": "hcl", "input": key, "variant": "run", "k": 0, "plan": "", "file": "", "sum": "", "sorted": "", "same_schema": true, "err": "marshal: " + err.Error(), "maxparents": 0})
		return
	}
	var base schema.Schema
	if err := in.d.eval([]byte(doc), &base); err != nil {
		emit(ev{"ev": "obs", "op": "hcl", "input": key, "variant": "run", "k": 0, "plan": "", "file": "", "sum": "", "sorted": "", "same_schema": true, "err": "eval: " + err.Error(), "maxparents": 0})
		return
	}
	bp, bs, err := planFromEmpty(in.d, &base)
	if err != nil {
		bp, bs = "", ""
	}
	// file = digest of the marshalled document; plan / sorted = plan of the evaluated document from an empty schema
	emit(ev{"ev": "obs", "op": "hcl", "input": key, "variant": tag, "k": 0, "plan": bp, "file": dig(doc), "sum": "", "sorted": bs, "same_schema": true, "err": "", "maxparents": 0})
	for k := 1; k < runs; k++ {
		d2, err := hclOf(in)
		e := ""
		if err != nil {
			e = err.Error()
		}
		var s2 schema.Schema
		p2, ss2 := "", ""
		if err := in.d.eval([]byte(d2), &s2); err == nil {
			p2, ss2, _ = planFromEmpty(in.d, &s2)
		}
		emit(ev{"ev": "obs", "op": "hcl", "input": key, "variant": tag, "k": k, "plan": p2, "file": dig(d2), "sum": "", "sorted": ss2, "same_schema": true, "err": e, "maxparents": 0})
	}
	bl := blocks(doc)
	if len(bl) < 3 {
		return
	}
	for k := 0; k < perms; k++ {
		pb := append([]string{}, bl...)
		rng.Shuffle(len(pb), func(i, j int) { pb[i], pb[j] = pb[j], pb[i] })
		pdoc := strings.Join(pb, "")
		if pdoc == doc {
			continue
		}
		var ps schema.Schema
		if err := in.d.eval([]byte(pdoc), &ps); err != nil {
			emit(ev{"ev": "obs", "op": "hcl", "input": key, "variant": "perm", "k": k, "plan": "", "file": "", "sum": "", "sorted": "", "same_schema": false, "err": "eval of permuted document: " + err.Error(), "maxparents": 0, "doc": pdoc})
			continue
		}
		c1, e1 := in.d.differ.SchemaDiff(&base, &ps)
		c2, e2 := in.d.differ.SchemaDiff(&ps, &base)
		same := e1 == nil && e2 == nil && len(c1) == 0 && len(c2) == 0
		pp, pso, err := planFromEmpty(in.d, &ps)
		e := ""
		if err != nil {
			e = "plan of permuted document: " + err.Error()
			if bp == "" {
				e = "" // the base does not plan either
			}
		}
		o := ev{"ev": "obs", "op": "hcl", "input": key, "variant": "perm", "k": k, "plan": pp, "file": "", "sum": "", "sorted": pso, "same_schema": same, "err": e, "maxparents": 0}
		if !same || pso != bs {
			o["doc"] = pdoc
		}
		emit(o)
	}
}

// ---- diff under another listing order of a table's constraints ------------------------------------------

type chk struct {
	name, expr string
	soft       bool // MySQL: NOT ENFORCED, PostgreSQL: NO INHERIT
}

var chkCat = []chk{{"positive", "(id > 0)", false}, {"positive_soft", "(id > 0)", true}, {"small", "(id < 100)", false}}

func describe(cs []schema.Change) []string {
	var out []string
	for _, c := range cs {
		switch c := c.(type) {
		case *schema.ModifyTable:
			for _, s := range c.Changes {
				switch s := s.(type) {
				case *schema.AddCheck:
					out = append(out, "AddCheck "+s.C.Name)
				case *schema.DropCheck:
					out = append(out, "DropCheck "+s.C.Name)
				case *schema.ModifyCheck:
					out = append(out, "ModifyCheck "+s.From.Name+"->"+s.To.Name)
				case *schema.AddColumn:
					out = append(out, "AddColumn "+s.C.Name)
				default:
					out = append(out, fmt.Sprintf("%T", s))
				}
			}
		default:
			out = append(out, fmt.Sprintf("%T", c))
		}
	}
	sort.Strings(out)
	return out
}

func chkTable(d *dialect, set []int, order []int, extraCol bool) *schema.Schema {
	s := schema.New(d.schema)
	t := schema.NewTable("t").SetSchema(s)
	id := &schema.Column{Name: "id", Type: d.intT()}
	t.AddColumns(id)
	if extraCol {
		t.AddColumns(&schema.Column{Name: "note", Type: d.intT()})
	}
	for _, k := range order {
		c := chkCat[set[k]]
		ck := schema.NewCheck().SetName(c.name).SetExpr(c.expr)
		if c.soft {
			switch d.name {
			case "mysql":
				ck.AddAttrs(&mysql.Enforced{V: false})
			case "postgres":
				ck.AddAttrs(&postgres.NoInherit{})
			}
		}
		t.AddChecks(ck)
	}
	s.AddTables(t)
	return s
}

func perms(n int) [][]int {
	if n == 0 {
		return [][]int{{}}
	}
	var out [][]int
	for _, p := range perms(n - 1) {
		for i := 0; i <= len(p); i++ {
			q := append(append(append([]int{}, p[:i]...), n-1), p[i:]...)
			out = append(out, q)
		}
	}
	return out
}

// runChkPerms: for every pair of check sets (from, to; to optionally with one more column), both diff modes and every listing order of
// the checks on either side, the change set must be the one computed for the catalogue order.
func runChkPerms() {
	var sets [][]int
	for m := 0; m < 1<<len(chkCat); m++ {
		var st []int
		for i := range chkCat {
			if m&(1<<i) != 0 {
				st = append(st, i)
			}
		}
		sets = append(sets, st)
	}
	for _, d := range dialects() {
		for _, mode := range []string{"raw", "normalized"} {
			var opts []schema.DiffOption
			if mode == "normalized" {
				opts = append(opts, schema.DiffNormalized())
			}
			for fi, fs := range sets {
				for ti, ts := range sets {
					for _, extra := range []bool{false, true} {
						key := fmt.Sprintf("%s/%s/from%d/to%d/col%v", d.name, mode, fi, ti, extra)
						k := 0
						for pi, fp := range perms(len(fs)) {
							for qi, tp := range perms(len(ts)) {
								variant := "perm"
								if pi == 0 && qi == 0 {
									variant = "run"
								}
								var desc []string
								e := ""
								func() {
									defer func() {
										if r := recover(); r != nil {
											e = fmt.Sprint("panic: ", r)
										}
									}()
									cs, err := d.differ.SchemaDiff(chkTable(d, fs, fp, false), chkTable(d, ts, tp, extra), opts...)
									if err != nil {
										e = err.Error()
									}
									desc = describe(cs)
								}()
								emit(ev{"ev": "obs", "op": "diff", "input": key, "variant": variant, "k": k, "plan": "", "file": "", "sum": "", "sorted": dig(desc...),
									"same_schema": true, "err": e, "maxparents": 0, "doc": strings.Join(desc, "; ")})
								k++
							}
						}
					}
				}
			}
		}
	}
}

// ---- directories ------------------------------------------------------------------------------------

var catalogue = []string{"1_a.sql", "1_b.sql", "1.sql", "2_a.sql", "10_c.sql", "1_a.down.sql"}

func sumOf(d migrate.Dir) (string, string, error) {
	files, err := d.Files()
	if err != nil {
		return "", "", err
	}
	var ns []string
	for _, f := range files {
		ns = append(ns, f.Name())
	}
	hf, err := d.Checksum()
	if err != nil {
		return "", "", err
	}
	b, _ := hf.MarshalText()
	return dig(string(b)), strings.Join(ns, ","), nil
}

func runDirs(runs int, tmp string, rng *rand.Rand) {
	for mask := 1; mask < 1<<len(catalogue); mask++ {
		var sel []string
		for i, n := range catalogue {
			if mask&(1<<i) != 0 {
				sel = append(sel, n)
			}
		}
		key := "dir/" + strings.Join(sel, "+")
		content := func(n string) []byte {
			return []byte("-- " + n + "\nCREATE TABLE t_" + strings.NewReplacer(".", "_").Replace(n) + " (id int);\n")
		}
		k := 0
		for r := 0; r < runs; r++ {
			order := append([]string{}, sel...)
			if r > 0 {
				rng.Shuffle(len(order), func(i, j int) { order[i], order[j] = order[j], order[i] })
			}
			md := &migrate.MemDir{}
			for _, n := range order {
				md.WriteFile(n, content(n))
			}
			s, ns, err := sumOf(md)
			e := ""
			if err != nil {
				e = err.Error()
			}
			emit(ev{"ev": "obs", "op": "dir", "input": key, "variant": "run", "k": k, "plan": ns, "file": "", "sum": s, "sorted": "", "same_schema": true, "err": e, "maxparents": 0})
			k++
		}
		p, err := os.MkdirTemp(tmp, "dir")
		if err != nil {
			panic(err)
		}
		for _, n := range sel {
			os.WriteFile(filepath.Join(p, n), content(n), 0o644)
		}
		ld, err := migrate.NewLocalDir(p)
		if err != nil {
			panic(err)
		}
		for r := 0; r < 2; r++ {
			s, ns, err := sumOf(ld)
			e := ""
			if err != nil {
				e = err.Error()
			}
			emit(ev{"ev": "obs", "op": "dir", "input": key, "variant": "local", "k": k, "plan": ns, "file": "", "sum": s, "sorted": "", "same_schema": true, "err": e, "maxparents": 0})
			k++
		}
		os.RemoveAll(p)
	}
}

func main() {
	var (
		n      = flag.Int("n", 3, "tables")
		sample = flag.Float64("sample", 1, "")
		seed   = flag.Int64("seed", 1, "")
		runs   = flag.Int("runs", 3, "sequential executions per input")
		conc   = flag.Int("conc", 2, "concurrent executions per input (all inputs interleaved over a worker pool)")
		perms  = flag.Int("perms", 3, "permuted HCL documents per input")
		random = flag.Int("random", 0, "additional random graphs over 5..8 tables")
		outp   = flag.String("out", "obs.ndjson", "")
		tmp    = flag.String("tmp", os.TempDir(), "")
		tag    = flag.String("variant", "run", "variant label of the sequential executions (run | proc)")
		dirs   = flag.Bool("dirs", true, "")
		hcl    = flag.Bool("hcl", true, "")
		docsp  = flag.String("docs", "", "write the SQLite HCL documents (for the CLI part) to this file")
	)
	flag.Parse()
	f, err := os.Create(*outp)
	if err != nil {
		panic(err)
	}
	out = bufio.NewWriterSize(f, 1<<20)
	rng := rand.New(rand.NewSource(*seed))
	var allEdges [][2]int
	for i := 0; i < *n; i++ {
		for j := 0; j < *n; j++ {
			allEdges = append(allEdges, [2]int{i, j})
		}
	}
	var roleSets []string
	var rec func(cur string)
	rec = func(cur string) {
		if len(cur) == *n {
			roleSets = append(roleSets, cur)
			return
		}
		for _, r := range "cdk" {
			rec(cur + string(r))
		}
	}
	rec("")
	var inputs []*input
	ds := dialects()
	for mask := 0; mask < 1<<len(allEdges); mask++ {
		var edges [][2]int
		for b, e := range allEdges {
			if mask&(1<<b) != 0 {
				edges = append(edges, e)
			}
		}
		for _, rs := range roleSets {
			if *sample < 1 && rng.Float64() >= *sample {
				continue
			}
			for _, d := range ds {
				inputs = append(inputs, &input{d, *n, edges, rs})
			}
		}
	}
	for i := 0; i < *random; i++ {
		nn := 5 + rng.Intn(4)
		var edges [][2]int
		for a := 0; a < nn; a++ {
			for b := 0; b < nn; b++ {
				if rng.Float64() < 0.25 {
					edges = append(edges, [2]int{a, b})
				}
			}
		}
		rs := make([]byte, nn)
		for k := range rs {
			rs[k] = "cdk"[rng.Intn(3)]
		}
		for _, d := range ds {
			inputs = append(inputs, &input{d, nn, edges, string(rs)}, &input{d, nn, edges, strings.Repeat("c", nn)}, &input{d, nn, edges, strings.Repeat("d", nn)})
		}
	}
	for _, in := range inputs {
		for k := 0; k < *runs; k++ {
			obsPlan(in, *tag, k, execute(in))
		}
		if *hcl {
			runHCL(in, *tag, *runs, *perms, rng)
			hold(in)
		}
	}
	// concurrent executions: every input `conc` times, interleaved with all the others over a pool of workers
	if *conc > 0 {
		type job struct {
			in *input
			k  int
		}
		jobs := make([]job, 0, len(inputs)**conc)
		for k := 0; k < *conc; k++ {
			for _, in := range inputs {
				jobs = append(jobs, job{in, k})
			}
		}
		rng.Shuffle(len(jobs), func(i, j int) { jobs[i], jobs[j] = jobs[j], jobs[i] })
		ch := make(chan job)
		var wg sync.WaitGroup
		for w := 0; w < 8; w++ {
			wg.Add(1)
			go func() {
				defer wg.Done()
				for j := range ch {
					obsPlan(j.in, "conc", j.k, execute(j.in))
				}
			}()
		}
		for _, j := range jobs {
			ch <- j
		}
		close(ch)
		wg.Wait()
	}
	if *dirs {
		runDirs(*runs+2, *tmp, rng)
		runChkPerms()
		runMultiSchema(rng)
	}
	if *hcl {
		checkHeld()
	}
	out.Flush()
	f.Close()
	if *docsp != "" {
		b, _ := json.Marshal(docs)
		os.WriteFile(*docsp, b, 0o644)
	}
	fmt.Printf("{\"inputs\": %d}\n", len(inputs))
}
