// exclude: compares schema.ExcludeRealm with the expectations exported from Exclude.tla (property C19, pattern part).
package main

import (
	"bufio"
	"encoding/json"
	"fmt"
	"os"
	"sort"
	"strings"

	"ariga.io/atlas/sql/schema"
)

type seg struct {
	G   []string `json:"g"`
	Sel []string `json:"sel"`
}
type res struct {
	S  []string `json:"s"`
	T  []string `json:"t"`
	C  []string `json:"c"`
	Ty string   `json:"ty"`
}
type rec struct {
	Ps   [][]seg `json:"ps"`
	Want struct {
		Absent  []res `json:"absent"`
		Present []res `json:"present"`
	} `json:"want"`
}

func name(x []string) string { return strings.Join(x, "") }

func render(p []seg) string {
	var parts []string
	for _, s := range p {
		g := ""
		for _, x := range s.G {
			g += x
		}
		if len(s.Sel) > 0 {
			sel := append([]string{}, s.Sel...)
			sort.Strings(sel)
			g += "[type=" + strings.Join(sel, "|") + "]"
		}
		parts = append(parts, g)
	}
	return strings.Join(parts, ".")
}

func realm() *schema.Realm {
	r := schema.NewRealm()
	intT := &schema.ColumnType{Type: &schema.IntegerType{T: "int"}, Raw: "int"}
	for _, sn := range []string{"a", "ab"} {
		s := schema.New(sn)
		r.AddSchemas(s)
		tabs := map[string]*schema.Table{}
		for _, tn := range []string{"a", "b", "ab"} {
			t := schema.NewTable(tn)
			ca, cb := &schema.Column{Name: "a", Type: intT}, &schema.Column{Name: "b", Type: intT}
			t.AddColumns(ca, cb)
			t.AddIndexes(schema.NewIndex("a").AddColumns(ca), schema.NewIndex("b").AddColumns(cb))
			t.AddChecks(schema.NewCheck().SetName("a").SetExpr("a > 0"))
			s.AddTables(t)
			tabs[tn] = t
		}
		b := tabs["b"]
		b.AddForeignKeys(schema.NewForeignKey("a").SetTable(b).AddColumns(b.Columns[0]).SetRefTable(tabs["a"]).AddRefColumns(tabs["a"].Columns[0]))
	}
	return r
}

func key(s, t, c, ty string) string { return ty + ":" + s + "." + t + "." + c }

func present(r *schema.Realm) map[string]bool {
	out := map[string]bool{}
	for _, s := range r.Schemas {
		out[key(s.Name, "", "", "schema")] = true
		for _, t := range s.Tables {
			out[key(s.Name, t.Name, "", "table")] = true
			for _, c := range t.Columns {
				out[key(s.Name, t.Name, c.Name, "column")] = true
			}
			for _, i := range t.Indexes {
				out[key(s.Name, t.Name, i.Name, "index")] = true
			}
			for _, f := range t.ForeignKeys {
				out[key(s.Name, t.Name, f.Symbol, "fk")] = true
			}
			for _, a := range t.Attrs {
				if c, ok := a.(*schema.Check); ok {
					out[key(s.Name, t.Name, c.Name, "check")] = true
				}
			}
		}
	}
	return out
}

func main() {
	f, err := os.Open(os.Args[1])
	if err != nil {
		panic(err)
	}
	sc := bufio.NewScanner(f)
	sc.Buffer(make([]byte, 1<<20), 1<<26)
	type mm struct {
		Patterns []string `json:"patterns"`
		Leaked   []string `json:"leaked"` // must be absent, still present
		Lost     []string `json:"lost"`   // must be present, gone
		Err      string   `json:"err,omitempty"`
	}
	var (
		n      int
		nscope int
		mism   = []mm{}
		samp   []any
	)
	for sc.Scan() {
		var r rec
		if err := json.Unmarshal(sc.Bytes(), &r); err != nil {
			panic(err)
		}
		n++
		var pats []string
		for _, p := range r.Ps {
			pats = append(pats, render(p))
		}
		var (
			got  *schema.Realm
			gerr error
		)
		func() {
			defer func() {
				if p := recover(); p != nil {
					gerr = fmt.Errorf("panic: %v", p)
				}
			}()
			got, gerr = schema.ExcludeRealm(realm(), pats)
		}()
		m := mm{Patterns: pats}
		if gerr != nil {
			m.Err = gerr.Error()
			mism = append(mism, m)
			continue
		}
		pr := present(got)
		for _, x := range r.Want.Absent {
			if k := key(name(x.S), name(x.T), name(x.C), x.Ty); pr[k] {
				m.Leaked = append(m.Leaked, k)
			}
		}
		for _, x := range r.Want.Present {
			if k := key(name(x.S), name(x.T), name(x.C), x.Ty); !pr[k] {
				m.Lost = append(m.Lost, k)
			}
		}
		if len(m.Leaked)+len(m.Lost) > 0 {
			mism = append(mism, m)
		}
		// schema scope (what a connection bound to one schema uses): the patterns taken as table[.child] patterns of schema s must
		// act like the realm patterns "<s>.<pattern>" on that schema - whatever their first segment spells
		func() {
			defer func() {
				if p := recover(); p != nil {
					mism = append(mism, mm{Patterns: pats, Err: fmt.Sprintf("schema scope: panic: %v", p)})
				}
			}()
			ra := realm()
			sname := ra.Schemas[0].Name
			a, aerr := schema.ExcludeSchema(ra.Schemas[0], pats)
			var q []string
			for _, p := range pats {
				q = append(q, sname+"."+p)
			}
			rb, berr := schema.ExcludeRealm(realm(), q)
			nscope++
			if (aerr != nil) != (berr != nil) {
				mism = append(mism, mm{Patterns: pats, Err: fmt.Sprintf("schema scope: ExcludeSchema error %v, realm-scope equivalent error %v", aerr, berr)})
				return
			}
			if aerr != nil {
				return
			}
			pa, pb := present(&schema.Realm{Schemas: []*schema.Schema{a}}), map[string]bool{}
			for k, v := range present(rb) {
				if strings.Contains(k, ":"+sname+".") {
					pb[k] = v
				}
			}
			var diff []string
			for k := range pa {
				if !pb[k] {
					diff = append(diff, "+"+k)
				}
			}
			for k := range pb {
				if !pa[k] {
					diff = append(diff, "-"+k)
				}
			}
			if len(diff) > 0 {
				sort.Strings(diff)
				mism = append(mism, mm{Patterns: pats, Leaked: diff, Err: "schema scope differs from the realm-scope equivalent"})
			}
		}()
		if n%211 == 5 && len(samp) < 3 {
			samp = append(samp, map[string]any{"patterns": pats, "absent": len(r.Want.Absent), "present": len(r.Want.Present)})
		}
	}
	json.NewEncoder(os.Stdout).Encode(map[string]any{"cases": n, "schema_scope_cases": nscope, "mismatches": mism, "samples": samp})
}
