// dirsum: binds DirSum.tla to sql/migrate (property C06).
//
//	dirsum replay <behaviours.ndjson>          S->C: replays TLC-generated behaviours on a real LocalDir, compares Validate outcomes
//	dirsum bytes  <out.ndjson> <maxfiles>      C->S: single-edit byte neighbourhood of small directories -> abstract events for DirSumTrace.tla
package main

import (
	"bufio"
	"crypto/sha256"
	"encoding/base64"
	"encoding/json"
	"errors"
	"fmt"
	"os"
	"path/filepath"
	"sort"
	"strings"

	"ariga.io/atlas/sql/migrate"
)

var names = []string{"1_a.sql", "2_b.sql", "3_c.sql", "4_d.sql"}

type step struct {
	A   string `json:"a"`
	K   int    `json:"k"`
	M   int    `json:"m"`
	C   string `json:"c"`
	Ign bool   `json:"ign"`
	Out string `json:"out"`
}

func planFor(k int, c string) *migrate.Plan {
	n := strings.TrimSuffix(names[k-1], ".sql")
	parts := strings.SplitN(n, "_", 2)
	return &migrate.Plan{Version: parts[0], Name: parts[1], Changes: []*migrate.Change{{Cmd: "CREATE TABLE t_" + c + " (id int)"}}}
}

// content of a file with abstract content id c: exactly the bytes the default formatter writes for planFor(k, c)
func content(k int, c string, ign bool) []byte {
	if c == "empty" {
		return []byte{}
	}
	fs, err := migrate.DefaultFormatter.Format(planFor(k, c))
	if err != nil {
		panic(err)
	}
	b := fs[0].Bytes()
	if ign {
		b = append([]byte("-- atlas:sum ignore\n\n"), b...)
	}
	return b
}

func classify(err error) string {
	switch {
	case err == nil:
		return "ok"
	case errors.Is(err, migrate.ErrChecksumNotFound):
		return "notfound"
	case errors.Is(err, migrate.ErrChecksumFormat):
		return "format"
	case errors.Is(err, migrate.ErrChecksumMismatch):
		return "mismatch"
	}
	return "other:" + err.Error()
}

func validate(d migrate.Dir) (out string) {
	defer func() {
		if r := recover(); r != nil {
			out = fmt.Sprint("panic:", r)
		}
	}()
	return classify(migrate.Validate(d))
}

func sumLines(p string) []string {
	b, err := os.ReadFile(filepath.Join(p, "atlas.sum"))
	if err != nil {
		panic(err)
	}
	return strings.Split(strings.TrimSuffix(string(b), "\n"), "\n")
}

func writeSum(p string, lines []string) {
	if err := os.WriteFile(filepath.Join(p, "atlas.sum"), []byte(strings.Join(lines, "\n")+"\n"), 0o644); err != nil {
		panic(err)
	}
}

func flipB64(s string, at int) string {
	b := []byte(s)
	if b[at] == 'A' {
		b[at] = 'B'
	} else {
		b[at] = 'A'
	}
	return string(b)
}

func do(p string, dir *migrate.LocalDir, s step) {
	fp := func(k int) string { return filepath.Join(p, names[k-1]) }
	switch s.A {
	case "write":
		must(os.WriteFile(fp(s.K), content(s.K, s.C, s.Ign), 0o644))
	case "remove":
		must(os.Remove(fp(s.K)))
	case "rename":
		// a renamed file keeps its bytes; contents are per-name in the formatter, so re-render for the new name
		b, err := os.ReadFile(fp(s.K))
		must(err)
		must(os.Remove(fp(s.K)))
		must(os.WriteFile(fp(s.M), b, 0o644))
	case "swap":
		a, err := os.ReadFile(fp(s.K))
		must(err)
		b, err := os.ReadFile(fp(s.M))
		must(err)
		must(os.WriteFile(fp(s.K), b, 0o644))
		must(os.WriteFile(fp(s.M), a, 0o644))
	case "hash":
		sum, err := dir.Checksum()
		must(err)
		must(migrate.WriteSumFile(dir, sum))
	case "writeplan":
		pl := migrate.NewPlanner(nil, dir)
		must(pl.WritePlan(planFor(s.K, s.C)))
	case "sum-remove":
		must(os.Remove(filepath.Join(p, "atlas.sum")))
	case "sum-edit-total":
		l := sumLines(p)
		l[0] = flipB64(l[0], 5)
		writeSum(p, l)
	case "sum-edit-hash":
		l := sumLines(p)
		i := strings.Index(l[s.K], "h1:")
		l[s.K] = flipB64(l[s.K], i+5)
		writeSum(p, l)
	case "sum-edit-name":
		l := sumLines(p)
		i := strings.Index(l[s.K], " h1:")
		l[s.K] = "zz.sql" + l[s.K][i:]
		writeSum(p, l)
	case "sum-drop-line":
		l := sumLines(p)
		l = append(l[:s.K], l[s.K+1:]...)
		writeSum(p, l)
	case "sum-dup-line":
		l := sumLines(p)
		l = append(l[:s.K+1], l[s.K:]...)
		writeSum(p, l)
	case "sum-swap-lines":
		l := sumLines(p)
		l[s.K], l[s.K+1] = l[s.K+1], l[s.K]
		writeSum(p, l)
	case "sum-break-line":
		l := sumLines(p)
		l[s.K] = strings.Replace(l[s.K], "h1:", "h1_", 1)
		writeSum(p, l)
	default:
		panic("unknown action " + s.A)
	}
}

func must(err error) {
	if err != nil {
		panic(err)
	}
}

type mismatch struct {
	Behaviour []step `json:"behaviour"`
	At        int    `json:"at"`
	Want      string `json:"want"`
	Got       string `json:"got"`
}

func replay(path string) {
	f, err := os.Open(path)
	must(err)
	sc := bufio.NewScanner(f)
	sc.Buffer(make([]byte, 1<<20), 1<<26)
	var (
		n, steps int
		mism     = []mismatch{}
		outs     = map[string]int{}
		acts     = map[string]int{}
		sample   [][]step
	)
	root, err := os.MkdirTemp(os.Getenv("VERIF_SCRATCH"), "dirsum")
	must(err)
	defer os.RemoveAll(root)
	for sc.Scan() {
		var b []step
		must(json.Unmarshal(sc.Bytes(), &b))
		n++
		if n%997 == 1 && len(sample) < 3 {
			sample = append(sample, b)
		}
		p := filepath.Join(root, fmt.Sprint("d", n))
		must(os.Mkdir(p, 0o755))
		dir, err := migrate.NewLocalDir(p)
		must(err)
		for i, s := range b {
			func() {
				defer func() {
					if r := recover(); r != nil {
						mism = append(mism, mismatch{b, i, s.Out, fmt.Sprint("harness-panic:", r)})
					}
				}()
				do(p, dir, s)
			}()
			got := validate(dir)
			steps++
			outs[got]++
			acts[s.A]++
			if got != s.Out {
				mism = append(mism, mismatch{b, i, s.Out, got})
				break
			}
			// the writers of Atlas must leave a valid directory also when read back through a MemDir copy
			if s.A == "hash" || s.A == "writeplan" {
				mem := &migrate.MemDir{}
				fs, err := dir.Files()
				must(err)
				must(mem.CopyFiles(fs))
				if g := validate(mem); g != "ok" {
					mism = append(mism, mismatch{b, i, "ok(memdir copy)", g})
				}
			}
		}
		os.RemoveAll(p)
	}
	json.NewEncoder(os.Stdout).Encode(map[string]any{"behaviours": n, "steps": steps, "outcomes": outs, "actions": acts, "mismatches": mism, "samples": sample})
}

// ---------------------------------------------------------------- byte neighbourhood (C->S)

type absFile struct {
	N string `json:"n"`
	C string `json:"c"` // content id or "ign"
}
type absEntry struct {
	N    string    `json:"n"`
	Junk bool      `json:"junk"`
	H    []absFile `json:"h"`
}
type absSum struct {
	Has     bool       `json:"has"`
	Fmt     bool       `json:"fmt"`
	TotalOK bool       `json:"totalok"`
	Entries []absEntry `json:"entries"`
}
type event struct {
	Ev      string    `json:"ev"`
	ID      int       `json:"id"`
	C       int       `json:"c"`
	Files   []absFile `json:"files"`
	Sum     absSum    `json:"sum"`
	Out     string    `json:"out"`
	Changed bool      `json:"changed"` // informational: the abstraction differs from the pristine one
	Op      string    `json:"op"`
	Writer  bool      `json:"writer"` // the observation follows `migrate hash` (WriteSumFile(Checksum())) on this directory
}

// isIgnored: the documented rule for `atlas:sum ignore` -- a directive on the very first line of the file:
// printable prefix, "atlas:sum", blanks, "ignore" up to the end of the printable run.
func isIgnored(b []byte) bool {
	line := string(b)
	// the regular expression is anchored at the start of the content and cannot cross a non-printable byte
	end := 0
	for end < len(line) && line[end] >= ' ' && line[end] <= '~' {
		end++
	}
	line = line[:end]
	i := strings.LastIndex(line, "atlas:")
	for i >= 0 {
		rest := line[i+len("atlas:"):]
		j := 0
		for j < len(rest) && (rest[j] == '_' || rest[j] >= '0' && rest[j] <= '9' || rest[j] >= 'a' && rest[j] <= 'z' || rest[j] >= 'A' && rest[j] <= 'Z') {
			j++
		}
		if j > 0 {
			name, arg := rest[:j], rest[j:]
			if name != "sum" {
				return false
			}
			if !strings.HasPrefix(arg, " ") {
				return false
			}
			return strings.TrimLeft(arg, " ") == "ignore"
		}
		i = strings.LastIndex(line[:i], "atlas:")
	}
	return false
}

type world struct {
	cids map[string]string // content bytes -> id
}

func (w *world) cid(b []byte) string {
	k := string(b)
	if id, ok := w.cids[k]; ok {
		return id
	}
	id := fmt.Sprint("c", len(w.cids)+1)
	w.cids[k] = id
	return id
}

type concrete struct {
	names []string
	data  map[string][]byte
}

func listing(p string) concrete {
	c := concrete{data: map[string][]byte{}}
	es, err := os.ReadDir(p)
	must(err)
	for _, e := range es {
		if strings.HasSuffix(e.Name(), ".sql") && !e.IsDir() {
			b, err := os.ReadFile(filepath.Join(p, e.Name()))
			must(err)
			c.names = append(c.names, e.Name())
			c.data[e.Name()] = b
		}
	}
	sort.Strings(c.names)
	return c
}

// chains: cumulative hash string -> abstract chain, for every prefix of the listing
func (w *world) chains(c concrete, into map[string][]absFile) []absFile {
	h := sha256.New()
	var files, chain []absFile
	for _, n := range c.names {
		b := c.data[n]
		h.Write([]byte(n))
		if isIgnored(b) {
			files = append(files, absFile{n, "ign"})
			chain = append(chain, absFile{n, "ign"})
			continue
		}
		h.Write(b)
		id := w.cid(b)
		files = append(files, absFile{n, id})
		chain = append(chain, absFile{n, id})
		into[base64.StdEncoding.EncodeToString(h.Sum(nil))] = append([]absFile{}, chain...)
	}
	return files
}

func (w *world) abstract(p string, dict map[string][]absFile) ([]absFile, absSum) {
	c := listing(p)
	files := w.chains(c, dict)
	if files == nil {
		files = []absFile{}
	}
	s := absSum{Entries: []absEntry{}}
	b, err := os.ReadFile(filepath.Join(p, "atlas.sum"))
	if err != nil {
		return files, s
	}
	s.Has, s.Fmt = true, true
	sc := bufio.NewScanner(strings.NewReader(string(b)))
	sc.Scan()
	total := strings.TrimPrefix(sc.Text(), "h1:")
	sha := sha256.New()
	for sc.Scan() {
		li := strings.SplitN(sc.Text(), "h1:", 2)
		if len(li) != 2 {
			s.Fmt = false
			return files, s
		}
		n, hs := strings.TrimSpace(li[0]), li[1]
		sha.Write([]byte(n))
		sha.Write([]byte(hs))
		e := absEntry{N: n, H: []absFile{}}
		if ch, ok := dict[hs]; ok {
			e.H = ch
		} else {
			e.Junk = true
		}
		s.Entries = append(s.Entries, e)
	}
	s.TotalOK = base64.StdEncoding.EncodeToString(sha.Sum(nil)) == total
	return files, s
}

func bytesMode(out string, maxFiles int) {
	f, err := os.Create(out)
	must(err)
	bw := bufio.NewWriterSize(f, 1<<20)
	root, err := os.MkdirTemp(os.Getenv("VERIF_SCRATCH"), "dirsumb")
	must(err)
	defer os.RemoveAll(root)
	var (
		nev, ncase int
		outs       = map[string]int{}
		sample     []event
	)
	emit := func(e event) {
		e.ID = nev + 1
		b, _ := json.Marshal(e)
		bw.Write(b)
		bw.WriteByte('\n')
		nev++
		outs[e.Out]++
		if nev%5003 == 7 && len(sample) < 3 {
			sample = append(sample, e)
		}
	}
	// directory shapes: n files, one of them (or none) carrying atlas:sum ignore at position g
	for n := 1; n <= maxFiles; n++ {
		for g := 0; g <= n; g++ {
			ncase++
			p := filepath.Join(root, fmt.Sprint("b", ncase))
			must(os.Mkdir(p, 0o755))
			dir, err := migrate.NewLocalDir(p)
			must(err)
			for k := 1; k <= n; k++ {
				must(os.WriteFile(filepath.Join(p, names[k-1]), content(k, fmt.Sprint("v", k), k == g), 0o644))
			}
			sum, err := dir.Checksum()
			must(err)
			must(migrate.WriteSumFile(dir, sum))
			w := &world{cids: map[string]string{}}
			dict := map[string][]absFile{}
			f0, s0 := w.abstract(p, dict)
			emit(event{Ev: "obs", C: ncase, Files: f0, Sum: s0, Out: validate(dir)})
			pristine, _ := json.Marshal([]any{f0, s0})
			targets := append([]string{"atlas.sum"}, names[:n]...)
			for _, t := range targets {
				tp := filepath.Join(p, t)
				orig, err := os.ReadFile(tp)
				must(err)
				for pos := 0; pos <= len(orig); pos++ {
					for _, op := range []string{"flip", "delete", "insert"} {
						if pos == len(orig) && op != "insert" {
							continue
						}
						var nb []byte
						switch op {
						case "flip":
							nb = append([]byte{}, orig...)
							if nb[pos] == 'x' {
								nb[pos] = 'y'
							} else {
								nb[pos] = 'x'
							}
						case "delete":
							nb = append(append([]byte{}, orig[:pos]...), orig[pos+1:]...)
						case "insert":
							nb = append(append(append([]byte{}, orig[:pos]...), 'x'), orig[pos:]...)
						}
						must(os.WriteFile(tp, nb, 0o644))
						fa, sa := w.abstract(p, dict)
						now, _ := json.Marshal([]any{fa, sa})
						emit(event{Ev: "obs", C: ncase, Files: fa, Sum: sa, Out: validate(dir), Changed: string(now) != string(pristine), Op: fmt.Sprintf("%s %d in %s", op, pos, t)})
						// migration files: the inserted byte also ranges over the blank classes a reader might normalise away
						if op == "insert" && t != "atlas.sum" {
							for _, c := range []byte{'\r', ' ', '\t', '\n', 0} {
								nb = append(append(append([]byte{}, orig[:pos]...), c), orig[pos:]...)
								must(os.WriteFile(tp, nb, 0o644))
								fa, sa := w.abstract(p, dict)
								now, _ := json.Marshal([]any{fa, sa})
								emit(event{Ev: "obs", C: ncase, Files: fa, Sum: sa, Out: validate(dir), Changed: string(now) != string(pristine), Op: fmt.Sprintf("insert %q %d in %s", c, pos, t)})
							}
						}
					}
				}
				// compound edits of the sum file: one byte moved a few positions away
				if t == "atlas.sum" {
					for pos := 0; pos < len(orig); pos++ {
						for d := -6; d <= 6; d++ {
							q := pos + d
							if d == 0 || q < 0 || q >= len(orig) || orig[pos] == orig[q] && (d == 1 || d == -1) {
								continue
							}
							nb := append(append([]byte{}, orig[:pos]...), orig[pos+1:]...)
							nb = append(append(append([]byte{}, nb[:q]...), orig[pos]), nb[q:]...)
							if string(nb) == string(orig) {
								continue
							}
							must(os.WriteFile(tp, nb, 0o644))
							fa, sa := w.abstract(p, dict)
							now, _ := json.Marshal([]any{fa, sa})
							emit(event{Ev: "obs", C: ncase, Files: fa, Sum: sa, Out: validate(dir), Changed: string(now) != string(pristine), Op: fmt.Sprintf("move %d->%d in %s", pos, q, t)})
							// `migrate hash` on the tampered directory: whatever the sum file looked like, the writer leaves a valid directory
							if cs, err := dir.Checksum(); err == nil && migrate.WriteSumFile(dir, cs) == nil {
								fw, sw := w.abstract(p, dict)
								emit(event{Ev: "obs", C: ncase, Files: fw, Sum: sw, Out: validate(dir), Changed: false, Writer: true, Op: fmt.Sprintf("hash after move %d->%d in %s", pos, q, t)})
							}
						}
					}
				}
				must(os.WriteFile(tp, orig, 0o644))
			}
			// whole-file edits: remove / add a file anywhere / rename
			for k := 1; k <= n; k++ {
				tp := filepath.Join(p, names[k-1])
				orig, _ := os.ReadFile(tp)
				must(os.Remove(tp))
				fa, sa := w.abstract(p, dict)
				emit(event{Ev: "obs", C: ncase, Files: fa, Sum: sa, Out: validate(dir), Changed: true})
				np := filepath.Join(p, "0_"+names[k-1])
				must(os.WriteFile(np, orig, 0o644))
				fa, sa = w.abstract(p, dict)
				emit(event{Ev: "obs", C: ncase, Files: fa, Sum: sa, Out: validate(dir), Changed: true})
				must(os.Remove(np))
				must(os.WriteFile(tp, orig, 0o644))
			}
			for _, extra := range []string{"0_new.sql", "1_z.sql", "9_new.sql"} {
				np := filepath.Join(p, extra)
				must(os.WriteFile(np, []byte("CREATE TABLE extra (id int);\n"), 0o644))
				fa, sa := w.abstract(p, dict)
				emit(event{Ev: "obs", C: ncase, Files: fa, Sum: sa, Out: validate(dir), Changed: true})
				must(os.Remove(np))
			}
			// a migration file that is a symbolic link to a file kept elsewhere: a file of the directory like any other
			{
				target := filepath.Join(root, fmt.Sprint("shared", ncase, ".sql"))
				must(os.WriteFile(target, []byte("CREATE TABLE shared (id int);\n"), 0o644))
				np := filepath.Join(p, "1_link.sql")
				must(os.Symlink(target, np))
				fa, sa := w.abstract(p, dict)
				emit(event{Ev: "obs", C: ncase, Files: fa, Sum: sa, Out: validate(dir), Changed: true, Op: "add symlinked file"})
				if cs, err := dir.Checksum(); err == nil && migrate.WriteSumFile(dir, cs) == nil {
					// hashed with the link in place, then the link's target is edited: detected like any content change
					must(os.WriteFile(target, []byte("CREATE TABLE shared (id int, x int);\n"), 0o644))
					fa, sa = w.abstract(p, dict)
					emit(event{Ev: "obs", C: ncase, Files: fa, Sum: sa, Out: validate(dir), Changed: true, Op: "edit target of symlinked file"})
				}
				must(os.Remove(np))
				must(os.Remove(target))
			}
			os.RemoveAll(p)
		}
	}
	bw.Flush()
	f.Close()
	json.NewEncoder(os.Stdout).Encode(map[string]any{"events": nev, "directories": ncase, "outcomes": outs, "samples": sample})
}

func main() {
	switch os.Args[1] {
	case "replay":
		replay(os.Args[2])
	case "bytes":
		var n int
		fmt.Sscan(os.Args[3], &n)
		bytesMode(os.Args[2], n)
	}
}
