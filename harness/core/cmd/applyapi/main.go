// applyapi: drives the real Executor.ExecuteN through enumerated fault plans (C09) and edit scenarios (C12)
// with scripted stores, and records every call as one ndjson event for ApplyMonitor.tla / ApplyTrace.tla.
//
//	applyapi -mode c09 -maxf 3 -maxs 3 -faults 2 -out trace.ndjson -cases cases.json
//	applyapi -mode c12 -maxs 5 -out trace.ndjson -cases cases.json
package main

import (
	"context"
	"crypto/sha256"
	"encoding/base64"
	"encoding/json"
	"errors"
	"flag"
	"fmt"
	"bufio"
	"math/rand"
	"os"
	"strings"

	"ariga.io/atlas/sql/migrate"
	"verif/core/fake"
)

type event struct {
	Ev      string  `json:"ev"`
	C       int     `json:"c"`
	F       int     `json:"f"`
	Tok     int     `json:"tok"`
	Ok      bool    `json:"ok"`
	Applied int     `json:"applied"`
	Total   int     `json:"total"`
	Err     bool    `json:"err"`
	Partial []int   `json:"partial"`
	N       int     `json:"n"`
	Cls     string  `json:"cls"`
	Toks    []int   `json:"toks"`
	Shape   [][]int `json:"shape"`
}

type edit struct {
	Kind string `json:"kind"`
	F    int    `json:"f"`
	J    int    `json:"j"`
}

type scenario struct {
	ID     int     `json:"id"`
	Mode   string  `json:"mode"`
	Shape  [][]int `json:"shape"`
	ExecF  []int   `json:"exec_faults"`  // global ExecContext call numbers that fail (1-based)
	WriteF []int   `json:"write_faults"` // global WriteRevision call numbers that fail
	ReadF  []int   `json:"read_faults,omitempty"` // global ReadRevision call numbers (inside Execute) that fail
	N      int     `json:"n"`            // ExecuteN argument
	Edit   *edit   `json:"edit,omitempty"`
	K      int     `json:"k"`       // C12: progress before the edit
	Runs   int     `json:"runs"`    // runs performed
	First  int     `json:"first"`   // index of the first event (1-based line in the trace)
	Last   int     `json:"last"`
	Panic  string  `json:"panic,omitempty"`
	NewLen int     `json:"newlen"` // C12: statements in the file after the edit
}

var (
	out   *bufio.Writer
	line  int
	cases []*scenario
)

func emit(e event) {
	if e.Partial == nil {
		e.Partial = []int{}
	}
	if e.Toks == nil {
		e.Toks = []int{}
	}
	if e.Shape == nil {
		e.Shape = [][]int{}
	}
	b, _ := json.Marshal(e)
	out.Write(b)
	out.WriteByte('\n')
	line++
}

func fname(f int) string { return fmt.Sprintf("%03d_f.sql", f) }

func stmtText(f, tok int) string { return fmt.Sprintf("INSERT INTO j VALUES (%d, %d);", f, tok) }

func writeDir(shape [][]int) *migrate.MemDir {
	dir := &migrate.MemDir{}
	for f, toks := range shape {
		var b strings.Builder
		b.WriteString("-- file\n")
		for _, t := range toks {
			b.WriteString(stmtText(f+1, t))
			b.WriteByte('\n')
		}
		if err := dir.WriteFile(fname(f+1), []byte(b.String())); err != nil {
			panic(err)
		}
	}
	sum, err := dir.Checksum()
	if err != nil {
		panic(err)
	}
	if err := migrate.WriteSumFile(dir, sum); err != nil {
		panic(err)
	}
	return dir
}

func parse(q string) (f, tok int) {
	if _, err := fmt.Sscanf(q, "INSERT INTO j VALUES (%d, %d)", &f, &tok); err != nil {
		return -1, -1
	}
	return
}

type world struct {
	sc       *scenario
	shape    [][]int
	versions map[int][][]int // file -> every content it ever had
	texts    map[[2]int]string
	nexec    int
	nwrite   int
	nread    int
	drv      *fake.Driver
	rrw      *fake.RRW
}

func in(xs []int, x int) bool {
	for _, y := range xs {
		if x == y {
			return true
		}
	}
	return false
}

// decode maps the cumulative statement hashes of a revision back to tokens (SHA-256 is the only thing shared
// with the code under test; the statement texts are the ones the driver double received).
func (w *world) decode(f int, hashes []string) []int {
	if len(hashes) == 0 {
		return []int{}
	}
	for _, v := range w.versions[f] {
		if len(v) < len(hashes) {
			continue
		}
		h := sha256.New()
		ok := true
		for i := range hashes {
			t, known := w.texts[[2]int{f, v[i]}]
			if !known {
				ok = false
				break
			}
			h.Write([]byte(t))
			if "h1:"+base64.StdEncoding.EncodeToString(h.Sum(nil)) != hashes[i] {
				ok = false
				break
			}
		}
		if ok {
			return append([]int{}, v[:len(hashes)]...)
		}
	}
	r := make([]int, len(hashes))
	for i := range r {
		r[i] = -1
	}
	return r
}

func fileOf(version string) int {
	var f int
	fmt.Sscanf(version, "%d", &f)
	return f
}

func classify(err error, pan any) string {
	var (
		hc *migrate.HistoryChangedError
		hv migrate.HistoryChangedError
		se *migrate.StmtExecError
		we *migrate.WriteRevisionError
	)
	switch {
	case pan != nil:
		return "panic"
	case err == nil:
		return "ok"
	case errors.As(err, &hc) || errors.As(err, &hv):
		return "history-changed"
	case errors.As(err, &se):
		return "stmt"
	case errors.As(err, &we):
		return "write"
	case errors.Is(err, migrate.ErrNoPendingFiles):
		return "nopending"
	case strings.Contains(err.Error(), "injected revision read failure"):
		return "read"
	}
	return "other:" + err.Error()
}

func (w *world) run(n int) (cls string) {
	dir := writeDir(w.shape)
	emit(event{Ev: "run", C: w.sc.ID, N: n})
	var (
		err error
		pan any
	)
	func() {
		defer func() {
			if r := recover(); r != nil {
				pan = r
				w.sc.Panic = fmt.Sprint(r)
			}
		}()
		var ex *migrate.Executor
		ex, err = migrate.NewExecutor(w.drv, dir, w.rrw)
		if err != nil {
			panic(err)
		}
		err = ex.ExecuteN(context.Background(), n)
	}()
	cls = classify(err, pan)
	emit(event{Ev: "end", C: w.sc.ID, Cls: cls, Err: err != nil || pan != nil})
	w.sc.Runs++
	return cls
}

func newWorld(sc *scenario) *world {
	w := &world{sc: sc, versions: map[int][][]int{}, texts: map[[2]int]string{}}
	for _, s := range sc.Shape {
		w.shape = append(w.shape, append([]int{}, s...))
	}
	for f, s := range w.shape {
		w.versions[f+1] = [][]int{append([]int{}, s...)}
	}
	w.drv = &fake.Driver{Clean: true}
	w.rrw = fake.NewRRW()
	w.drv.OnExec = func(q string) error {
		w.nexec++
		if in(sc.ExecF, w.nexec) {
			return errors.New("injected statement failure")
		}
		return nil
	}
	w.drv.ExecHook = func(q string, err error) {
		f, tok := parse(q)
		w.texts[[2]int{f, tok}] = q
		emit(event{Ev: "exec", C: sc.ID, F: f, Tok: tok, Ok: err == nil})
	}
	w.rrw.OnWrite = func(r *migrate.Revision) error {
		w.nwrite++
		if in(sc.WriteF, w.nwrite) {
			return errors.New("injected revision write failure")
		}
		return nil
	}
	w.rrw.WriteHook = func(r *migrate.Revision, err error) {
		f := fileOf(r.Version)
		emit(event{Ev: "write", C: sc.ID, F: f, Applied: r.Applied, Total: r.Total, Err: r.Error != "", Partial: w.decode(f, r.PartialHashes), Ok: err == nil})
	}
	w.rrw.ReadHook = func(v string) { emit(event{Ev: "read", C: sc.ID, F: fileOf(v)}) }
	w.rrw.OnRead = func(v string) error {
		w.nread++
		if in(sc.ReadF, w.nread) {
			emit(event{Ev: "readfail", C: sc.ID, F: fileOf(v)})
			return errors.New("injected revision read failure")
		}
		return nil
	}
	return w
}

func (w *world) faultsLeft() bool {
	for _, x := range w.sc.ExecF {
		if x > w.nexec {
			return true
		}
	}
	for _, x := range w.sc.WriteF {
		if x > w.nwrite {
			return true
		}
	}
	for _, x := range w.sc.ReadF {
		if x > w.nread {
			return true
		}
	}
	return false
}

func begin(sc *scenario) *world {
	sc.ID = len(cases) + 1
	cases = append(cases, sc)
	sc.First = line + 1
	w := newWorld(sc)
	emit(event{Ev: "reset", C: sc.ID, Shape: sc.Shape})
	return w
}

func playC09(sc *scenario, maxRuns int) {
	w := begin(sc)
	for i := 0; i < maxRuns; i++ {
		cls := w.run(sc.N)
		if cls == "panic" {
			break
		}
		if cls == "nopending" && !w.faultsLeft() {
			break
		}
	}
	sc.Last = line
}

func applyEdit(s []int, e *edit, fresh int) []int {
	c := append([]int{}, s...)
	j := e.J
	switch e.Kind {
	case "change":
		c[j-1] = fresh
	case "insert":
		c = append(c[:j-1], append([]int{fresh}, c[j-1:]...)...)
	case "delete":
		c = append(c[:j-1], c[j:]...)
	case "swap":
		c[j-1], c[j] = c[j], c[j-1]
	case "truncate":
		c = c[:j]
	}
	return c
}

func playC12(sc *scenario) {
	w := begin(sc)
	w.run(0) // fails at statement k+1 of file 1
	e := sc.Edit
	nv := applyEdit(w.shape[e.F-1], e, 100)
	w.shape[e.F-1] = nv
	w.versions[e.F] = append(w.versions[e.F], nv)
	sc.NewLen = len(nv)
	emit(event{Ev: "edit", C: sc.ID, F: e.F, Toks: nv})
	for i := 0; i < 3; i++ {
		cls := w.run(0)
		if cls == "panic" || cls == "nopending" {
			break
		}
	}
	sc.Last = line
}

func shapes(maxF, maxS int) [][][]int {
	var out [][][]int
	var rec func(cur [][]int)
	rec = func(cur [][]int) {
		if len(cur) > 0 {
			c := make([][]int, len(cur))
			copy(c, cur)
			out = append(out, c)
		}
		if len(cur) == maxF {
			return
		}
		for n := 0; n <= maxS; n++ { // n = 0: a file without statements (comments only)
			s := make([]int, n)
			for i := range s {
				s[i] = i + 1
			}
			rec(append(cur, s))
		}
	}
	rec(nil)
	return out
}

// subsets of size <= k of 0..n-1
func subsets(n, k int) [][]int {
	out := [][]int{{}}
	var rec func(start int, cur []int)
	rec = func(start int, cur []int) {
		if len(cur) == k {
			return
		}
		for i := start; i < n; i++ {
			nc := append(append([]int{}, cur...), i)
			out = append(out, nc)
			rec(i+1, nc)
		}
	}
	rec(0, nil)
	return out
}

func main() {
	var (
		mode   = flag.String("mode", "c09", "c09 | c12")
		maxF   = flag.Int("maxf", 2, "")
		maxS   = flag.Int("maxs", 3, "")
		faults = flag.Int("faults", 2, "")
		sample = flag.Float64("sample", 1.0, "fraction of the fault plans with more than 2 faults that is kept")
		seed   = flag.Int64("seed", 1, "")
		outp   = flag.String("out", "trace.ndjson", "")
		casesp = flag.String("cases", "cases.json", "")
	)
	flag.Parse()
	f, err := os.Create(*outp)
	if err != nil {
		panic(err)
	}
	out = bufio.NewWriterSize(f, 1<<20)
	rng := rand.New(rand.NewSource(*seed))
	switch *mode {
	case "c09":
		for _, sh := range shapes(*maxF, *maxS) {
			total := 0
			for _, s := range sh {
				total += len(s)
			}
			ne := total + *faults          // ExecContext calls that can be reached
			nw := total + 2*len(sh) + *faults*2 // WriteRevision calls that can be reached
			for _, sub := range subsets(ne+nw, *faults) {
				if len(sub) > 2 && rng.Float64() >= *sample {
					continue
				}
				for _, n := range []int{0, 1} {
					if n == 1 && len(sh) == 1 {
						continue
					}
					sc := &scenario{Mode: "c09", Shape: sh, N: n, ExecF: []int{}, WriteF: []int{}}
					for _, x := range sub {
						if x < ne {
							sc.ExecF = append(sc.ExecF, x+1)
						} else {
							sc.WriteF = append(sc.WriteF, x-ne+1)
						}
					}
					playC09(sc, len(sub)+len(sh)+2)
				}
			}
			// a third fault class: the ReadRevision call at the start of a file fails (at most one earlier statement failure,
			// which leaves a partially applied file for the read to fail on)
			for rd := 1; rd <= len(sh)+2; rd++ {
				for ex := 0; ex <= total; ex++ {
					sc := &scenario{Mode: "c09", Shape: sh, N: 0, ExecF: []int{}, WriteF: []int{}, ReadF: []int{rd}}
					if ex > 0 {
						sc.ExecF = []int{ex}
					}
					playC09(sc, len(sh)+4)
				}
			}
		}
	case "c12":
		for n := 1; n <= *maxS; n++ {
			for _, second := range []bool{false, true} {
				for k := 0; k < n; k++ {
					var edits []edit
					for j := 1; j <= n; j++ {
						edits = append(edits, edit{"change", 1, j}, edit{"delete", 1, j})
					}
					for j := 1; j <= n+1; j++ {
						edits = append(edits, edit{"insert", 1, j})
					}
					for j := 1; j < n; j++ {
						edits = append(edits, edit{"swap", 1, j})
					}
					for m := 0; m < n; m++ {
						edits = append(edits, edit{"truncate", 1, m})
					}
					for i := range edits {
						s := make([]int, n)
						for x := range s {
							s[x] = x + 1
						}
						sh := [][]int{s}
						if second {
							sh = append(sh, []int{1})
						}
						sc := &scenario{Mode: "c12", Shape: sh, K: k, ExecF: []int{k + 1}, WriteF: []int{}, Edit: &edits[i]}
						playC12(sc)
					}
				}
			}
		}
	}
	out.Flush()
	f.Close()
	b, _ := json.Marshal(cases)
	os.WriteFile(*casesp, b, 0o644)
	fmt.Printf("{\"cases\": %d, \"events\": %d}\n", len(cases), line)
}
