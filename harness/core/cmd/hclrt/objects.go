package main

import (
	"ariga.io/atlas/sql/mysql"
	"ariga.io/atlas/sql/postgres"
	"ariga.io/atlas/sql/schema"
)

// objectSchemas are built directly as schema objects (the way an inspection produces them), so that an attribute lost by the HCL
// evaluation shows up as a difference between the original objects and the round-tripped schema.
func objectSchemas(dialect string) map[string]*schema.Schema {
	out := map[string]*schema.Schema{}
	switch dialect {
	case "postgres":
		s := schema.New("public")
		t := schema.NewTable("users").SetSchema(s)
		id := &schema.Column{Name: "id", Type: &schema.ColumnType{Type: &schema.IntegerType{T: "bigint"}, Raw: "bigint"}}
		name := &schema.Column{Name: "name", Type: &schema.ColumnType{Type: &schema.StringType{T: "text"}, Raw: "text"}}
		t.AddColumns(id, name)
		t.SetPrimaryKey(schema.NewPrimaryKey(id))
		ix := schema.NewIndex("expr_parts")
		ix.AddParts(
			&schema.IndexPart{X: &schema.RawExpr{X: "lower(name)"}, Attrs: []schema.Attr{&postgres.IndexOpClass{Name: "text_pattern_ops"}}},
			&schema.IndexPart{X: &schema.RawExpr{X: "upper(name)"}, Desc: true, Attrs: []schema.Attr{&postgres.IndexColumnProperty{NullsLast: true}}},
			&schema.IndexPart{C: name, Attrs: []schema.Attr{&postgres.IndexColumnProperty{NullsFirst: true}, &postgres.IndexOpClass{Name: "text_pattern_ops"}}},
		)
		ix.AddAttrs(&postgres.IndexType{T: "BTREE"})
		t.AddIndexes(ix)
		gin := schema.NewIndex("incl").AddColumns(id)
		gin.AddAttrs(&postgres.IndexInclude{Columns: []*schema.Column{name}}, &postgres.IndexPredicate{P: "(id > 0)"})
		t.AddIndexes(gin)
		s.AddTables(t)
		out["pg-index-part-attrs"] = s
	case "mysql":
		s := schema.New("app")
		t := schema.NewTable("users").SetSchema(s)
		id := &schema.Column{Name: "id", Type: &schema.ColumnType{Type: &schema.IntegerType{T: "bigint", Unsigned: true}, Raw: "bigint unsigned"}}
		id.AddAttrs(&mysql.AutoIncrement{})
		name := &schema.Column{Name: "name", Type: &schema.ColumnType{Type: &schema.StringType{T: "varchar", Size: 255}, Raw: "varchar(255)"}}
		t.AddColumns(id, name)
		t.SetPrimaryKey(schema.NewPrimaryKey(id))
		ix := schema.NewIndex("prefixed")
		ix.AddParts(&schema.IndexPart{C: name, Attrs: []schema.Attr{&mysql.SubPart{Len: 10}}}, &schema.IndexPart{X: &schema.RawExpr{X: "(lower(`name`))"}, Desc: true})
		t.AddIndexes(ix)
		s.AddTables(t)
		out["mysql-index-part-attrs"] = s
	}
	return out
}
