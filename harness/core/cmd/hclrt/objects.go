package main

import (
	"ariga.io/atlas/sql/mysql"
	"ariga.io/atlas/sql/postgres"
	"ariga.io/atlas/sql/schema"
)

// objectSchemas are built directly as schema objects (the way an inspection produces them), so that an attribute lost by the HCL
// evaluation shows up as a difference between the original objects and the round-tripped schema.
func objectSchemas(dialect string) map[string]*schema.Schema {
	out := map[string]*schema.Schema{}
	switch dialect {
	case "postgres":
		s := schema.New("public")
		t := schema.NewTable("users").SetSchema(s)
		id := &schema.Column{Name: "id", Type: &schema.ColumnType{Type: &schema.IntegerType{T: "bigint"}, Raw: "bigint"}}
		name := &schema.Column{Name: "name", Type: &schema.ColumnType{Type: &schema.StringType{T: "text"}, Raw: "text"}}
		t.AddColumns(id, name)
		t.SetPrimaryKey(schema.NewPrimaryKey(id))
		ix := schema.NewIndex("expr_parts")
		ix.AddParts(
			&schema.IndexPart{X: &schema.RawExpr{X: "lower(name)"}, Attrs: []schema.Attr{&postgres.IndexOpClass{Name: "text_pattern_ops"}}},
			&schema.IndexPart{X: &schema.RawExpr{X: "upper(name)"}, Desc: true, Attrs: []schema.Attr{&postgres.IndexColumnProperty{NullsLast: true}}},
			&schema.IndexPart{C: name, Attrs: []schema.Attr{&postgres.IndexColumnProperty{NullsFirst: true}, &postgres.IndexOpClass{Name: "text_pattern_ops"}}},
		)
		ix.AddAttrs(&postgres.IndexType{T: "BTREE"})
		t.AddIndexes(ix)
		gin := schema.NewIndex("incl").AddColumns(id)
		gin.AddAttrs(&postgres.IndexInclude{Columns: []*schema.Column{name}}, &postgres.IndexPredicate{P: "(id > 0)"})
		t.AddIndexes(gin)
		s.AddTables(t)
		out["pg-index-part-attrs"] = s
	case "mysql":
		s := schema.New("app")
		t := schema.NewTable("users").SetSchema(s)
		id := &schema.Column{Name: "id", Type: &schema.ColumnType{Type: &schema.IntegerType{T: "bigint", Unsigned: true}, Raw: "bigint unsigned"}}
		id.AddAttrs(&mysql.AutoIncrement{})
		name := &schema.Column{Name: "name", Type: &schema.ColumnType{Type: &schema.StringType{T: "varchar", Size: 255}, Raw: "varchar(255)"}}
		t.AddColumns(id, name)
		t.SetPrimaryKey(schema.NewPrimaryKey(id))
		ix := schema.NewIndex("prefixed")
		ix.AddParts(&schema.IndexPart{C: name, Attrs: []schema.Attr{&mysql.SubPart{Len: 10}}}, &schema.IndexPart{X: &schema.RawExpr{X: "(lower(`name`))"}, Desc: true})
		t.AddIndexes(ix)
		s.AddTables(t)
		out["mysql-index-part-attrs"] = s
		// a primary key over column prefixes
		s2 := schema.New("app")
		t2 := schema.NewTable("docs").SetSchema(s2)
		slug := &schema.Column{Name: "slug", Type: &schema.ColumnType{Type: &schema.StringType{T: "varchar", Size: 255}, Raw: "varchar(255)"}}
		body := &schema.Column{Name: "body", Type: &schema.ColumnType{Type: &schema.StringType{T: "text"}, Raw: "text"}}
		t2.AddColumns(slug, body)
		pk := &schema.Index{Unique: true}
		pk.AddParts(&schema.IndexPart{C: slug, Attrs: []schema.Attr{&mysql.SubPart{Len: 32}}}, &schema.IndexPart{C: body, Attrs: []schema.Attr{&mysql.SubPart{Len: 64}}})
		t2.SetPrimaryKey(pk)
		s2.AddTables(t2)
		out["mysql-primary-key-prefix"] = s2
		// a column whose collation differs from the table's while its charset is the table's
		s3 := schema.New("app").AddAttrs(&schema.Charset{V: "utf8mb4"}, &schema.Collation{V: "utf8mb4_0900_ai_ci"})
		t3 := schema.NewTable("notes").SetSchema(s3).AddAttrs(&schema.Charset{V: "latin1"}, &schema.Collation{V: "latin1_swedish_ci"})
		c1 := &schema.Column{Name: "a", Type: &schema.ColumnType{Type: &schema.StringType{T: "varchar", Size: 32}, Raw: "varchar(32)"}}
		c1.AddAttrs(&schema.Charset{V: "latin1"}, &schema.Collation{V: "latin1_bin"})
		c2 := &schema.Column{Name: "b", Type: &schema.ColumnType{Type: &schema.StringType{T: "varchar", Size: 32}, Raw: "varchar(32)"}}
		c2.AddAttrs(&schema.Charset{V: "latin1"}, &schema.Collation{V: "latin1_swedish_ci"})
		t3.AddColumns(c1, c2)
		s3.AddTables(t3)
		out["mysql-collation-with-inherited-charset"] = s3
	}
	if dialect == "postgres" {
		// types without their optional parameters, built as objects (what "no length" means must survive the round trip)
		s := schema.New("public")
		t := schema.NewTable("unparam").SetSchema(s)
		for _, c := range []struct {
			n   string
			t   schema.Type
			raw string
		}{
			{"vb", &postgres.BitType{T: "bit varying"}, "bit varying"},
			{"vc", &schema.StringType{T: "character varying"}, "character varying"},
			{"num", &schema.DecimalType{T: "numeric"}, "numeric"},
			{"ts", &schema.TimeType{T: "timestamp without time zone"}, "timestamp without time zone"},
			{"tm", &schema.TimeType{T: "time without time zone"}, "time without time zone"},
			{"iv", &postgres.IntervalType{T: "interval"}, "interval"},
		} {
			t.AddColumns(&schema.Column{Name: c.n, Type: &schema.ColumnType{Type: c.t, Raw: c.raw, Null: true}})
		}
		s.AddTables(t)
		out["pg-types-without-parameters"] = s
	}
	return out
}

// defaultSchemas: one-column tables whose default is written the way an inspection reports it (literal text as stored by the engine,
// raw expressions); label -> schema. The round trip must give back a default the dialect's differ considers unchanged.
func defaultSchemas(dialect string) map[string]*schema.Schema {
	type tc struct {
		name string
		mk   func() schema.Type
		raw  string
	}
	var (
		ints, floats, bools, strs, times tc
		sch                              string
	)
	switch dialect {
	case "mysql":
		sch = "app"
		ints = tc{"int", func() schema.Type { return &schema.IntegerType{T: "bigint"} }, "bigint"}
		floats = tc{"float", func() schema.Type { return &schema.FloatType{T: "double"} }, "double"}
		bools = tc{"bool", func() schema.Type { return &schema.BoolType{T: "bool"} }, "bool"}
		strs = tc{"str", func() schema.Type { return &schema.StringType{T: "varchar", Size: 64} }, "varchar(64)"}
		times = tc{"time", func() schema.Type { return &schema.TimeType{T: "timestamp"} }, "timestamp"}
	case "postgres":
		sch = "public"
		ints = tc{"int", func() schema.Type { return &schema.IntegerType{T: "bigint"} }, "bigint"}
		floats = tc{"float", func() schema.Type { return &schema.FloatType{T: "double precision", Precision: 53} }, "double precision"}
		bools = tc{"bool", func() schema.Type { return &schema.BoolType{T: "boolean"} }, "boolean"}
		strs = tc{"str", func() schema.Type { return &schema.StringType{T: "text"} }, "text"}
		times = tc{"time", func() schema.Type { return &schema.TimeType{T: "timestamp without time zone"} }, "timestamp without time zone"}
	default:
		sch = "main"
		ints = tc{"int", func() schema.Type { return &schema.IntegerType{T: "integer"} }, "integer"}
		floats = tc{"float", func() schema.Type { return &schema.FloatType{T: "real"} }, "real"}
		bools = tc{"bool", func() schema.Type { return &schema.BoolType{T: "boolean"} }, "boolean"}
		strs = tc{"str", func() schema.Type { return &schema.StringType{T: "text"} }, "text"}
		times = tc{"time", func() schema.Type { return &schema.TimeType{T: "datetime"} }, "datetime"}
	}
	lit := func(v string) schema.Expr { return &schema.Literal{V: v} }
	rawx := func(v string) schema.Expr { return &schema.RawExpr{X: v} }
	cases := []struct {
		t tc
		d schema.Expr
		l string
	}{
		{ints, lit("1"), "1"}, {ints, lit("0"), "0"}, {ints, lit("-5"), "-5"}, {ints, lit("9223372036854775807"), "maxint64"},
		{floats, lit("1.5"), "1.5"}, {floats, lit("-0.5"), "-0.5"}, {floats, lit("1e3"), "1e3"}, {floats, lit("2.5E-3"), "2.5E-3"}, {floats, lit("10"), "10"},
		{bools, lit("true"), "true"}, {bools, lit("false"), "false"}, {bools, lit("TRUE"), "TRUE"}, {bools, lit("FALSE"), "FALSE"}, {bools, lit("True"), "True"},
		{strs, lit("'x'"), "'x'"}, {strs, lit("''"), "empty"}, {strs, lit("'it''s'"), "quote-inside"}, {strs, lit("'1'"), "'1'"}, {strs, lit("'true'"), "'true'"},
		{strs, lit("'a b'"), "blank-inside"}, {strs, lit("'null'"), "'null'"},
		{times, rawx("CURRENT_TIMESTAMP"), "current_timestamp"},
		{ints, rawx("(1 + 1)"), "expr"},
	}
	out := map[string]*schema.Schema{}
	for _, c := range cases {
		// MySQL and PostgreSQL report defaults in a normal form (0.0025, true); only SQLite keeps the text as written
		if dialect != "sqlite" && (c.l == "1e3" || c.l == "2.5E-3" || c.l == "TRUE" || c.l == "FALSE" || c.l == "True") {
			continue
		}
		s := schema.New(sch)
		t := schema.NewTable("t").SetSchema(s)
		col := &schema.Column{Name: "c", Type: &schema.ColumnType{Type: c.t.mk(), Raw: c.t.raw, Null: true}, Default: c.d}
		t.AddColumns(col)
		s.AddTables(t)
		out["default "+c.t.name+" "+c.l] = s
	}
	return out
}
