// hclrt: HCL round trip and FormatType/ParseType fixpoint over the full type catalogue of each dialect (property C15).
//
//	hclrt <states.ndjson> <out.ndjson> <maxstates>
//
// states.ndjson: (from, to) pairs exported from SchemaModel.tla; their `to` states give the structure / attribute combinations, the
// registry gives the concrete types that are rotated into the model's opaque type ids.
package main

import (
	"bufio"
	"encoding/json"
	"fmt"
	"os"
	"reflect"
	"strings"

	"ariga.io/atlas/schemahcl"
	"ariga.io/atlas/sql/mysql"
	"ariga.io/atlas/sql/postgres"
	"ariga.io/atlas/sql/schema"
	"ariga.io/atlas/sql/sqlite"
	"verif/core/absmodel"
)

type dia struct {
	name     string
	reg      *schemahcl.TypeRegistry
	format   func(schema.Type) (string, error)
	parse    func(string) (schema.Type, error)
	marshal  func(any) ([]byte, error)
	eval     func([]byte, any) error
	differ   schema.Differ
	schema   string
	comments bool
	show     []string
}

type obs struct {
	ID       int    `json:"id"`
	Dialect  string `json:"dialect"`
	Kind     string `json:"kind"` // type | state | showcase
	Type     string `json:"type"`
	Fixpoint bool   `json:"fixpoint"`
	DiffFwd  int    `json:"diff_fwd"`
	DiffBwd  int    `json:"diff_bwd"`
	Stable   bool   `json:"stable"`
	Err      string `json:"err"`
	Skipped  string `json:"skipped"`
	HCL      string `json:"hcl,omitempty"`
	Changes  string `json:"changes,omitempty"`
}

// instances builds the parameter grid of one type spec.
func instances(d *dia, ts *schemahcl.TypeSpec) []schema.Type {
	grid := map[string][]any{
		"size": {1, 16, 255}, "precision": {0, 3, 6}, "scale": {0, 2}, "unsigned": {true, false}, "values": {[]string{"a", "b c", "d"}},
		"srid": {4326}, "len": {8}, "length": {8},
	}
	var combos [][]*schemahcl.Attr
	combos = append(combos, nil)
	for _, a := range ts.Attributes {
		vals, ok := grid[a.Name]
		if !ok {
			switch a.Kind {
			case reflect.Int, reflect.Int64:
				vals = []any{3}
			case reflect.Bool:
				vals = []any{true, false}
			case reflect.Slice:
				vals = []any{[]string{"a", "b"}}
			case reflect.String:
				vals = []any{"x"}
			default:
				vals = []any{3}
			}
		}
		var next [][]*schemahcl.Attr
		for _, c := range combos {
			if !a.Required {
				next = append(next, c)
			}
			for _, v := range vals {
				var at *schemahcl.Attr
				switch x := v.(type) {
				case int:
					at = schemahcl.IntAttr(a.Name, x)
				case bool:
					at = schemahcl.BoolAttr(a.Name, x)
				case []string:
					at = schemahcl.StringsAttr(a.Name, x...)
				case string:
					at = schemahcl.StringAttr(a.Name, x)
				}
				next = append(next, append(append([]*schemahcl.Attr{}, c...), at))
			}
		}
		combos = next
	}
	var out []schema.Type
	seen := map[string]bool{}
	for _, c := range combos {
		func() {
			defer func() { recover() }()
			t, err := d.reg.Type(&schemahcl.Type{T: ts.T, Attrs: c}, nil)
			if err != nil || t == nil {
				return
			}
			s, err := d.format(t)
			if err != nil || seen[s] {
				return
			}
			seen[s] = true
			out = append(out, t)
		}()
	}
	return out
}

func roundTrip(d *dia, s *schema.Schema, o *obs) {
	defer func() {
		if r := recover(); r != nil {
			o.Err = fmt.Sprint("panic: ", r)
		}
	}()
	hcl, err := d.marshal(s)
	if err != nil {
		o.Err = "marshal: " + err.Error()
		return
	}
	o.HCL = string(hcl)
	var s2 schema.Schema
	if err := d.eval(hcl, &s2); err != nil {
		o.Err = "eval: " + err.Error()
		return
	}
	fwd, err := d.differ.SchemaDiff(s, &s2, schema.DiffNormalized())
	if err != nil {
		o.Err = "diff: " + err.Error()
		return
	}
	bwd, err := d.differ.SchemaDiff(&s2, s, schema.DiffNormalized())
	if err != nil {
		o.Err = "diff: " + err.Error()
		return
	}
	o.DiffFwd, o.DiffBwd = len(fwd), len(bwd)
	if len(fwd)+len(bwd) > 0 {
		o.Changes = strings.Join(absmodel.Project(append(fwd, bwd...)), "; ")
	}
	hcl2, err := d.marshal(&s2)
	if err != nil {
		o.Err = "marshal 2: " + err.Error()
		return
	}
	o.Stable = string(hcl) == string(hcl2)
	if !o.Stable {
		a, b := strings.Split(string(hcl), "\n"), strings.Split(string(hcl2), "\n")
		for i := 0; i < len(a) && i < len(b); i++ {
			if a[i] != b[i] {
				o.Changes += fmt.Sprintf(" | first marshal line %d: %q second: %q", i+1, a[i], b[i])
				break
			}
		}
	}
}

func main() {
	var max int
	fmt.Sscan(os.Args[3], &max)
	ds := []*dia{
		{name: "mysql", reg: mysql.TypeRegistry, format: mysql.FormatType, parse: mysql.ParseType, marshal: mysql.MarshalHCL.MarshalSpec, eval: func(b []byte, v any) error { return mysql.EvalHCLBytes(b, v, nil) },
			differ: mysql.DefaultDiff, schema: "app", comments: true, show: mysqlShow},
		{name: "postgres", reg: postgres.TypeRegistry, format: postgres.FormatType, parse: postgres.ParseType, marshal: postgres.MarshalHCL.MarshalSpec, eval: func(b []byte, v any) error { return postgres.EvalHCLBytes(b, v, nil) },
			differ: postgres.DefaultDiff, schema: "public", comments: true, show: pgShow},
		{name: "sqlite", reg: sqlite.TypeRegistry, format: sqlite.FormatType, parse: sqlite.ParseType, marshal: sqlite.MarshalHCL.MarshalSpec, eval: func(b []byte, v any) error { return sqlite.EvalHCLBytes(b, v, nil) },
			differ: sqlite.DefaultDiff, schema: "main", show: sqliteShow},
	}
	// model states
	var states []absmodel.State
	f, err := os.Open(os.Args[1])
	if err != nil {
		panic(err)
	}
	sc := bufio.NewScanner(f)
	sc.Buffer(make([]byte, 1<<20), 1<<26)
	seen := map[string]bool{}
	for sc.Scan() && (max == 0 || len(states) < max) {
		var p struct {
			To absmodel.State `json:"to"`
		}
		if err := json.Unmarshal(sc.Bytes(), &p); err != nil {
			panic(err)
		}
		b, _ := json.Marshal(p.To)
		if !seen[string(b)] {
			seen[string(b)] = true
			states = append(states, p.To)
		}
	}
	of, _ := os.Create(os.Args[2])
	w := bufio.NewWriterSize(of, 1<<20)
	ff, _ := os.Create(os.Args[2] + ".full")
	wf := bufio.NewWriterSize(ff, 1<<20)
	id := 0
	counts := map[string]int{}
	emit := func(o obs) {
		id++
		o.ID = id
		counts[o.Dialect+":"+o.Kind]++
		b, _ := json.Marshal(o)
		wf.Write(b)
		wf.WriteByte('\n')
		o.HCL, o.Changes = "", ""
		b, _ = json.Marshal(o)
		w.Write(b)
		w.WriteByte('\n')
	}
	for _, d := range ds {
		var all []schema.Type
		for _, ts := range d.reg.Specs() {
			all = append(all, instances(d, ts)...)
		}
		// (1) per type: fixpoint + a one-column table round trip
		for _, t := range all {
			o := obs{Dialect: d.name, Kind: "type", Stable: true}
			func() {
				defer func() {
					if r := recover(); r != nil {
						o.Err = fmt.Sprint("panic: ", r)
					}
				}()
				s1, err := d.format(t)
				if err != nil {
					o.Skipped = "format: " + err.Error()
					return
				}
				o.Type = s1
				t2, err := d.parse(s1)
				if err != nil {
					o.Err = "parse(format(t)): " + err.Error()
					return
				}
				s2, err := d.format(t2)
				if err != nil {
					o.Err = "format(parse(format(t))): " + err.Error()
					return
				}
				o.Fixpoint = s1 == s2
				if !o.Fixpoint {
					o.Changes = s1 + " -> " + s2
				}
				s := schema.New(d.schema)
				tb := schema.NewTable("t").SetSchema(s)
				tb.AddColumns(&schema.Column{Name: "c", Type: &schema.ColumnType{Type: t2, Raw: s1}})
				s.AddTables(tb)
				roundTrip(d, s, &o)
			}()
			emit(o)
		}
		if len(all) == 0 {
			panic("no type instances for " + d.name)
		}
		// (2) model states with registry types rotated into T1 / T2
		for i, st := range states {
			t1, t2 := all[(2*i)%len(all)], all[(2*i+1)%len(all)]
			mk := func(t schema.Type) func() *schema.ColumnType {
				return func() *schema.ColumnType {
					raw, _ := d.format(t)
					return &schema.ColumnType{Type: t, Raw: raw}
				}
			}
			dl := &absmodel.Dialect{Name: d.name, T1: mk(t1), T2: mk(t2), Comments: d.comments, Schema: d.schema}
			o := obs{Dialect: d.name, Kind: "state", Fixpoint: true}
			r1, _ := d.format(t1)
			r2, _ := d.format(t2)
			o.Type = r1 + " / " + r2
			func() {
				defer func() {
					if r := recover(); r != nil {
						o.Err = fmt.Sprint("panic: ", r)
					}
				}()
				s := absmodel.Build(dl, st, 0)
				// the model's default id is bound per type: a quoted literal for string types, a number for numeric types, none otherwise
				for _, t := range s.Tables {
					for _, c := range t.Columns {
						if c.Default == nil {
							continue
						}
						switch c.Type.Type.(type) {
						case *schema.StringType:
						case *schema.IntegerType, *schema.DecimalType, *schema.FloatType:
							c.Default = &schema.Literal{V: "1"}
						default:
							c.Default = nil
						}
					}
				}
				roundTrip(d, s, &o)
			}()
			emit(o)
		}
		// (3) attribute showcase documents (HCL -> schema -> HCL -> schema)
		for _, h := range d.show {
			o := obs{Dialect: d.name, Kind: "showcase", Fixpoint: true, Type: strings.SplitN(h, "\n", 2)[0]}
			func() {
				defer func() {
					if r := recover(); r != nil {
						o.Err = fmt.Sprint("panic: ", r)
					}
				}()
				var s schema.Schema
				if err := d.eval([]byte(h), &s); err != nil {
					o.Skipped = "eval showcase: " + err.Error()
					return
				}
				roundTrip(d, &s, &o)
			}()
			emit(o)
		}
	}
	// (4) object-built schemas: attributes that only exist on schema objects before any HCL evaluation touched them
	for _, d := range ds {
		for label, s := range objectSchemas(d.name) {
			o := obs{Dialect: d.name, Kind: "objects", Fixpoint: true, Type: label}
			roundTrip(d, s, &o)
			emit(o)
		}
	}
	// (5) column defaults as an inspection reports them
	for _, d := range ds {
		for label, s := range defaultSchemas(d.name) {
			o := obs{Dialect: d.name, Kind: "default", Fixpoint: true, Type: label}
			roundTrip(d, s, &o)
			emit(o)
		}
	}
	w.Flush()
	of.Close()
	wf.Flush()
	ff.Close()
	json.NewEncoder(os.Stdout).Encode(map[string]any{"observations": id, "counts": counts, "states": len(states)})
}
