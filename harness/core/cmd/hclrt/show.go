package main

// Attribute showcase documents: one HCL document per dialect feature group. The first line is a label.
var mysqlShow = []string{
	`# charset-collation-comment-autoincrement
schema "app" {
  charset = "utf8mb4"
  collate = "utf8mb4_0900_ai_ci"
}
table "users" {
  schema  = schema.app
  charset = "latin1"
  collate = "latin1_swedish_ci"
  comment = "all users"
  auto_increment = 100
  column "id" {
    null           = false
    type           = bigint
    unsigned       = true
    auto_increment = true
  }
  column "name" {
    null    = false
    type    = varchar(255)
    charset = "utf8mb4"
    collate = "utf8mb4_bin"
    comment = "display name"
    default = "anon"
  }
  column "updated" {
    null      = false
    type      = timestamp(6)
    default   = sql("CURRENT_TIMESTAMP(6)")
    on_update = sql("CURRENT_TIMESTAMP(6)")
  }
  column "lower_name" {
    null = true
    type = varchar(255)
    as {
      expr = "lower(` + "`name`" + `)"
      type = STORED
    }
  }
  primary_key {
    columns = [column.id]
  }
  index "name_prefix" {
    on {
      column = column.name
      prefix = 16
    }
    on {
      column = column.updated
      desc   = true
    }
    comment = "prefix index"
  }
  index "ft" {
    type    = FULLTEXT
    columns = [column.name]
  }
  check "positive" {
    expr = "(id > 0)"
  }
}
`,
	`# enum-set-json-decimals
schema "app" {
}
table "t" {
  schema = schema.app
  column "e" {
    null = false
    type = enum("a","b")
  }
  column "s" {
    null = true
    type = set("x","y")
  }
  column "d" {
    null     = false
    type     = decimal(10,2)
    unsigned = true
  }
  column "j" {
    null = true
    type = json
  }
  column "b" {
    null = false
    type = bit(8)
  }
}
`,
}

var pgShow = []string{
	`# identity-generated-index-options
schema "public" {
  comment = "standard public schema"
}
table "users" {
  schema = schema.public
  column "id" {
    null = false
    type = bigint
    identity {
      generated = ALWAYS
      start     = 10
      increment = 5
    }
  }
  column "name" {
    null    = false
    type    = character_varying(255)
    comment = "display name"
  }
  column "tags" {
    null = true
    type = sql("text[]")
  }
  column "lower_name" {
    null = true
    type = text
    as {
      expr = "lower((name)::text)"
      type = STORED
    }
  }
  column "created" {
    null    = false
    type    = timestamptz(3)
    default = sql("now()")
  }
  primary_key {
    columns = [column.id]
  }
  index "name_desc" {
    on {
      column = column.name
      desc   = true
    }
    include = [column.created]
    where   = "(id > 0)"
  }
  index "expr_parts" {
    on {
      expr = "lower((name)::text)"
      ops  = text_pattern_ops
    }
    on {
      expr       = "upper((name)::text)"
      desc       = true
      nulls_last = true
    }
    on {
      column      = column.created
      nulls_first = true
    }
  }
  index "tags_gin" {
    type    = GIN
    columns = [column.tags]
  }
  index "created_brin" {
    type           = BRIN
    columns        = [column.created]
    page_per_range = 64
  }
  check "positive" {
    expr = "(id > 0)"
  }
  comment = "all users"
}
`,
	`# enums-arrays-intervals
schema "public" {
}
enum "mood" {
  schema = schema.public
  values = ["happy", "sad"]
}
table "t" {
  schema = schema.public
  column "m" {
    null = false
    type = enum.mood
  }
  column "i" {
    null = true
    type = interval
  }
  column "n" {
    null = false
    type = numeric(12,4)
  }
  column "b" {
    null = true
    type = bit_varying(8)
  }
  column "u" {
    null    = false
    type    = uuid
    default = sql("gen_random_uuid()")
  }
}
`,
}

var sqliteShow = []string{
	`# autoincrement-options-partial-index
schema "main" {
}
table "users" {
  schema = schema.main
  column "id" {
    null           = false
    type           = integer
    auto_increment = true
  }
  column "name" {
    null    = false
    type    = text
    default = "anon"
  }
  column "n2" {
    null = true
    type = text
    as {
      expr = "upper(name)"
      type = VIRTUAL
    }
  }
  primary_key {
    columns = [column.id]
  }
  index "name_partial" {
    unique = true
    on {
      column = column.name
      desc   = true
    }
    where = "id > 0"
  }
  check "positive" {
    expr = "(id > 0)"
  }
}
table "kv" {
  schema        = schema.main
  without_rowid = true
  strict        = true
  column "k" {
    null = false
    type = text
  }
  column "v" {
    null = true
    type = blob
  }
  primary_key {
    columns = [column.k]
  }
}
`,
}
