// schemadiff: compares the change sets of the three dialect differs with DiffSpec (property C02; skip part of C19).
//
//	schemadiff <pairs.ndjson>   -> JSON summary
package main

import (
	"bufio"
	"encoding/json"
	"fmt"
	"os"
	"reflect"
	"strings"

	"ariga.io/atlas/sql/mysql"
	"ariga.io/atlas/sql/postgres"
	"ariga.io/atlas/sql/schema"
	"ariga.io/atlas/sql/sqlite"
	"verif/core/absmodel"
)

type pair struct {
	From absmodel.State    `json:"from"`
	To   absmodel.State    `json:"to"`
	Diff []absmodel.Change `json:"diff"`
}

type mismatch struct {
	Dialect string   `json:"dialect"`
	Mode    string   `json:"mode"`
	Want    []string `json:"want"`
	Got     []string `json:"got"`
	Pair    pair     `json:"pair"`
	Err     string   `json:"err,omitempty"`
}

func dialects() []struct {
	d      *absmodel.Dialect
	differ schema.Differ
} {
	it := func(t string) func() *schema.ColumnType {
		return func() *schema.ColumnType { return &schema.ColumnType{Type: &schema.IntegerType{T: t}, Raw: t} }
	}
	st := func(t string, size int, raw string) func() *schema.ColumnType {
		return func() *schema.ColumnType { return &schema.ColumnType{Type: &schema.StringType{T: t, Size: size}, Raw: raw} }
	}
	return []struct {
		d      *absmodel.Dialect
		differ schema.Differ
	}{
		{&absmodel.Dialect{Name: "mysql", T1: it("int"), T2: st("varchar", 255, "varchar(255)"), Comments: true, Schema: "app"}, mysql.DefaultDiff},
		{&absmodel.Dialect{Name: "postgres", T1: it("integer"), T2: st("character varying", 255, "character varying(255)"), Comments: true, Schema: "public"}, postgres.DefaultDiff},
		{&absmodel.Dialect{Name: "sqlite", T1: it("integer"), T2: st("text", 0, "text"), Comments: false, Schema: "main"}, sqlite.DefaultDiff},
	}
}

// skipKinds maps the model's change kinds to the policy's change types: exactly the kinds the CLI's diff.skip block can disable
// (cmdapi.SkipChanges) that the model produces; primary-key and check changes are not skippable by policy.
var skipKinds = map[string]schema.Change{
	"AddTable": &schema.AddTable{}, "DropTable": &schema.DropTable{}, "ModifyTable": &schema.ModifyTable{},
	"AddColumn": &schema.AddColumn{}, "DropColumn": &schema.DropColumn{}, "ModifyColumn": &schema.ModifyColumn{},
	"AddIndex": &schema.AddIndex{}, "DropIndex": &schema.DropIndex{}, "ModifyIndex": &schema.ModifyIndex{},
	"AddFK": &schema.AddForeignKey{}, "DropFK": &schema.DropForeignKey{}, "ModifyFK": &schema.ModifyForeignKey{},
}

// filterSkip: the reference's DiffSpecSkip on the rendered descriptors.
func filterSkip(want []string, kinds map[string]bool) []string {
	out := []string{}
	for _, w := range want {
		p := strings.Fields(w)
		if kinds[p[0]] {
			continue
		}
		if p[0] == "ModifyTable" && len(p) > 2 && kinds[p[2]] {
			continue
		}
		out = append(out, w)
	}
	return out
}

func main() {
	skipMode := len(os.Args) > 2 && os.Args[2] == "skip"
	f, err := os.Open(os.Args[1])
	if err != nil {
		panic(err)
	}
	sc := bufio.NewScanner(f)
	sc.Buffer(make([]byte, 1<<20), 1<<26)
	var (
		n, diffs int
		mism     = []mismatch{}
		classes  = map[string]int{}
		samples  []any
	)
	ds := dialects()
	for sc.Scan() {
		var p pair
		if err := json.Unmarshal(sc.Bytes(), &p); err != nil {
			panic(err)
		}
		n++
		for _, d := range ds {
			want := absmodel.ExpectedFor(d.d, p.From, p.To, p.Diff)
			for _, w := range want {
				parts := strings.Fields(w)
				cl := parts[0]
				if len(parts) > 2 {
					cl = parts[2]
					if len(parts) > 4 {
						cl += " " + parts[4]
					}
				}
				classes[cl]++
			}
			var extra []schema.DiffOption
			run := func(mode string, from, to *schema.Schema, want []string) {
				diffs++
				var (
					changes []schema.Change
					err     error
					pan     any
				)
				func() {
					defer func() { pan = recover() }()
					changes, err = d.differ.SchemaDiff(from, to, append([]schema.DiffOption{schema.DiffNormalized()}, extra...)...)
				}()
				got := absmodel.Project(changes)
				if want == nil {
					want = []string{}
				}
				if got == nil {
					got = []string{}
				}
				if err != nil || pan != nil || !reflect.DeepEqual(got, want) {
					if len(mism) < 400 {
						m := mismatch{Dialect: d.d.Name, Mode: mode, Want: want, Got: got, Pair: p}
						if err != nil {
							m.Err = err.Error()
						}
						if pan != nil {
							m.Err = fmt.Sprint("panic: ", pan)
						}
						mism = append(mism, m)
					}
				}
			}
			if skipMode {
				// every single kind that occurs in the expectation, and all drop kinds together
				kindsIn := map[string]bool{}
				for _, w := range want {
					p := strings.Fields(w)
					kindsIn[p[0]] = true
					if p[0] == "ModifyTable" && len(p) > 2 {
						kindsIn[p[2]] = true
					}
				}
				sets := []map[string]bool{{"DropTable": true, "DropColumn": true, "DropIndex": true, "DropFK": true}}
				for k := range kindsIn {
					if _, ok := skipKinds[k]; ok {
						sets = append(sets, map[string]bool{k: true})
					}
				}
				for _, ks := range sets {
					var cs []schema.Change
					names := []string{}
					for k := range ks {
						cs = append(cs, skipKinds[k])
						names = append(names, k)
					}
					extra = []schema.DiffOption{schema.DiffSkipChanges(cs...)}
					run("skip:"+strings.Join(names, "+"), absmodel.Build(d.d, p.From, 0), absmodel.Build(d.d, p.To, 0), filterSkip(want, ks))
				}
				extra = nil
				continue
			}
			run("edit", absmodel.Build(d.d, p.From, 0), absmodel.Build(d.d, p.To, 0), want)
			// the same objects listed in another order: same change set
			run("edit-permuted", absmodel.Build(d.d, p.From, 0), absmodel.Build(d.d, p.To, 3), want)
			// self, deep copy and permuted copy: empty
			run("self", absmodel.Build(d.d, p.To, 0), absmodel.Build(d.d, p.To, 0), nil)
			run("self-permuted", absmodel.Build(d.d, p.To, 0), absmodel.Build(d.d, p.To, 3), nil)
		}
		if n%5003 == 3 && len(samples) < 3 {
			samples = append(samples, map[string]any{"from": p.From, "to": p.To, "expected": absmodel.Expected(ds[0].d, p.Diff)})
		}
	}
	json.NewEncoder(os.Stdout).Encode(map[string]any{"pairs": n, "diffs": diffs, "mismatches": mism, "classes": classes, "samples": samples})
}
