// schemadiff: compares the change sets of the three dialect differs with DiffSpec (property C02; skip part of C19).
//
//	schemadiff <pairs.ndjson>   -> JSON summary
package main

import (
	"bufio"
	"encoding/json"
	"fmt"
	"os"
	"reflect"
	"sort"
	"strings"

	"ariga.io/atlas/sql/mysql"
	"ariga.io/atlas/sql/postgres"
	"ariga.io/atlas/sql/schema"
	"ariga.io/atlas/sql/sqlite"
	"verif/core/absmodel"
)

type pair struct {
	From absmodel.State    `json:"from"`
	To   absmodel.State    `json:"to"`
	Diff []absmodel.Change `json:"diff"`
}

type mismatch struct {
	Dialect string   `json:"dialect"`
	Mode    string   `json:"mode"`
	Want    []string `json:"want"`
	Got     []string `json:"got"`
	Pair    pair     `json:"pair"`
	Err     string   `json:"err,omitempty"`
	Types   string   `json:"types,omitempty"`
}

func dialects() []struct {
	d      *absmodel.Dialect
	differ schema.Differ
} {
	it := func(t string) func() *schema.ColumnType {
		return func() *schema.ColumnType { return &schema.ColumnType{Type: &schema.IntegerType{T: t}, Raw: t} }
	}
	st := func(t string, size int, raw string) func() *schema.ColumnType {
		return func() *schema.ColumnType {
			return &schema.ColumnType{Type: &schema.StringType{T: t, Size: size}, Raw: raw}
		}
	}
	return []struct {
		d      *absmodel.Dialect
		differ schema.Differ
	}{
		{&absmodel.Dialect{Name: "mysql", T1: it("int"), T2: st("varchar", 255, "varchar(255)"), Comments: true, Schema: "app"}, mysql.DefaultDiff},
		{&absmodel.Dialect{Name: "postgres", T1: it("integer"), T2: st("character varying", 255, "character varying(255)"), Comments: true, Schema: "public"}, postgres.DefaultDiff},
		{&absmodel.Dialect{Name: "sqlite", T1: it("integer"), T2: st("text", 0, "text"), Comments: false, Schema: "main"}, sqlite.DefaultDiff},
	}
}

// typeCatalogue: pairwise different column types per dialect (no two entries are aliases of each other); every ordered pair of them is a
// ChangeType edit of SchemaModel.tla (the model is parametric in its type ids).
type namedType struct {
	name string
	mk   func() *schema.ColumnType
}

func typeCatalogue(d string) []namedType {
	var out []namedType
	parsed := func(parse func(string) (schema.Type, error), raws ...string) {
		for _, raw := range raws {
			raw := raw
			if _, err := parse(raw); err != nil {
				panic("type catalogue: " + raw + ": " + err.Error())
			}
			out = append(out, namedType{raw, func() *schema.ColumnType {
				t, _ := parse(raw)
				return &schema.ColumnType{Type: t, Raw: raw}
			}})
		}
	}
	obj := func(name string, mk func() schema.Type) {
		out = append(out, namedType{name, func() *schema.ColumnType { return &schema.ColumnType{Type: mk(), Raw: name} }})
	}
	switch d {
	case "mysql":
		parsed(mysql.ParseType, "int", "int unsigned", "bigint", "smallint", "varchar(10)", "varchar(20)", "char(3)", "text", "longtext", "decimal(10,2)", "decimal(12,2)",
			"float", "double", "date", "datetime", "datetime(3)", "timestamp", "time", "year", "json", "blob", "binary(3)", "varbinary(10)", "enum('a','b')", "enum('a','c')", "set('a','b')",
			"bit(3)", "point")
	case "postgres":
		parsed(postgres.ParseType, "integer", "bigint", "smallint", "boolean", "text", "character varying(10)", "character varying(20)", "character(3)", "numeric(10,2)", "numeric(12,2)",
			"real", "double precision", "date", "timestamp(3) without time zone", "timestamp without time zone", "timestamp with time zone", "time without time zone", "uuid", "json", "jsonb", "bytea",
			"inet", "cidr", "macaddr", "interval", "bit(3)", "bit varying(5)", "money", "xml", "point", "tsvector", "int4range", "integer[]", "text[]")
		obj("user-defined citext", func() schema.Type { return &postgres.UserDefinedType{T: "citext"} })
		obj("user-defined hstore", func() schema.Type { return &postgres.UserDefinedType{T: "hstore"} })
	case "sqlite":
		// the SQLite differ compares type affinity classes by design (diff.typeChanged): one representative per class
		parsed(sqlite.ParseType, "integer", "text", "real", "blob", "numeric", "boolean", "date", "json", "uuid")
	}
	return out
}

type attrCase struct {
	label    string
	from, to *schema.Schema
	want     []string
}

// attrCases: (1) defaults: every ordered pair of a catalogue of default spellings per column kind, each spelling tagged with the class of
// the value it denotes; (2) MySQL: charset / collation of string-like columns (varchar, text, enum, set).
func attrCases(d *absmodel.Dialect) []attrCase {
	one := func(ct *schema.ColumnType, dflt schema.Expr, attrs ...schema.Attr) *schema.Schema {
		s := schema.New(d.Schema)
		t := schema.NewTable("t1").SetSchema(s)
		id := &schema.Column{Name: "id", Type: d.T1()}
		ct.Null = true
		b := &schema.Column{Name: "b", Type: ct, Default: dflt, Attrs: attrs}
		t.AddColumns(id, b)
		t.SetPrimaryKey(schema.NewPrimaryKey(id))
		s.AddTables(t)
		return s
	}
	type dv struct{ text, class string }
	text := []dv{{"'1.10'", "a"}, {"'1.1'", "b"}, {"'007'", "c"}, {"'7'", "d"}, {"'x'", "e"}, {"''", "f"}, {"'1e3'", "g"}, {"'1000'", "h"}, {"'true'", "i"}, {"'TRUE'", "j"}}
	ints := []dv{{"1", "a"}, {"2", "b"}, {"0", "c"}, {"-1", "d"}, {"10", "e"}}
	if d.Name == "sqlite" {
		// the engine keeps the text of the default: other spellings of one
		ints = append(ints, dv{"1.0", "a"}, dv{"+1", "a"}, dv{"1e0", "a"}, dv{"2.0", "b"})
	}
	var out []attrCase
	for _, kind := range []string{"text", "int"} {
		vals, mk := text, d.T2
		if kind == "int" {
			vals, mk = ints, d.T1
		}
		for _, x := range vals {
			for _, y := range vals {
				want := []string{}
				if x.class != y.class {
					want = []string{"ModifyTable t1 ModifyColumn b default"}
				}
				out = append(out, attrCase{"default " + kind + ": " + x.text + " -> " + y.text, one(mk(), &schema.Literal{V: x.text}), one(mk(), &schema.Literal{V: y.text}), want})
			}
		}
	}
	if d.Name == "mysql" {
		types := []string{"varchar(10)", "text", "enum('a','b')", "set('a','b')", "char(3)"}
		type cc struct{ cs, co string }
		sets := []cc{{"utf8mb4", "utf8mb4_0900_ai_ci"}, {"utf8mb4", "utf8mb4_bin"}, {"latin1", "latin1_swedish_ci"}, {"latin1", "latin1_bin"}}
		for _, raw := range types {
			mk := func() *schema.ColumnType {
				t, err := mysql.ParseType(raw)
				if err != nil {
					panic(err)
				}
				return &schema.ColumnType{Type: t, Raw: raw}
			}
			for _, x := range sets {
				for _, y := range sets {
					var fl []string
					if x.cs != y.cs {
						fl = append(fl, "charset")
					}
					if x.co != y.co {
						fl = append(fl, "collate")
					}
					want := []string{}
					if len(fl) > 0 {
						want = []string{"ModifyTable t1 ModifyColumn b " + strings.Join(fl, ",")}
					}
					out = append(out, attrCase{"mysql " + raw + ": " + x.cs + "/" + x.co + " -> " + y.cs + "/" + y.co,
						one(mk(), nil, &schema.Charset{V: x.cs}, &schema.Collation{V: x.co}), one(mk(), nil, &schema.Charset{V: y.cs}, &schema.Collation{V: y.co}), want})
				}
			}
		}
	}
	return out
}

// skipKinds maps the model's change kinds to the policy's change types: exactly the kinds the CLI's diff.skip block can disable
// (cmdapi.SkipChanges) that the model produces; primary-key and check changes are not skippable by policy.
var skipKinds = map[string]schema.Change{
	"AddTable": &schema.AddTable{}, "DropTable": &schema.DropTable{}, "ModifyTable": &schema.ModifyTable{},
	"AddColumn": &schema.AddColumn{}, "DropColumn": &schema.DropColumn{}, "ModifyColumn": &schema.ModifyColumn{},
	"AddIndex": &schema.AddIndex{}, "DropIndex": &schema.DropIndex{}, "ModifyIndex": &schema.ModifyIndex{},
	"AddFK": &schema.AddForeignKey{}, "DropFK": &schema.DropForeignKey{}, "ModifyFK": &schema.ModifyForeignKey{},
}

// filterSkip: the reference's DiffSpecSkip on the rendered descriptors.
func filterSkip(want []string, kinds map[string]bool) []string {
	out := []string{}
	for _, w := range want {
		p := strings.Fields(w)
		if kinds[p[0]] {
			continue
		}
		if p[0] == "ModifyTable" && len(p) > 2 && kinds[p[2]] {
			continue
		}
		out = append(out, w)
	}
	return out
}

// isTypeChangeOnly: the expected diff is one ModifyTable holding one ModifyColumn whose only flag is ChangeType, from T1 to T2
// (so that binding T1 / T2 to any two different concrete types keeps the expectation).
func isTypeChangeOnly(p pair) bool {
	if len(p.Diff) != 1 || p.Diff[0].K != "ModifyTable" || len(p.Diff[0].Ch) != 1 {
		return false
	}
	c := p.Diff[0].Ch[0]
	if c.K != "ModifyColumn" || len(c.F) != 1 || c.F[0] != "type" {
		return false
	}
	return p.From[p.Diff[0].T].Cols[c.N].Type == "T1" && p.To[p.Diff[0].T].Cols[c.N].Type == "T2"
}

// ---- foreign-key pairs of FkDiff.tla ---------------------------------------------------------------------

type fkRec struct {
	Cols     []string `json:"cols"`
	RefCols  []string `json:"refcols"`
	RefTable string   `json:"reftable"`
	OnUpd    string   `json:"onupd"`
	OnDel    string   `json:"ondel"`
}

type fkPair struct {
	From  fkRec    `json:"from"`
	To    fkRec    `json:"to"`
	Flags []string `json:"flags"`
}

func fkSchema(d *absmodel.Dialect, f fkRec) *schema.Schema {
	s := schema.New(d.Schema)
	parents := map[string]*schema.Table{}
	for _, pn := range []string{"p", "q"} {
		p := schema.NewTable(pn).SetSchema(s)
		x, y := &schema.Column{Name: "x", Type: d.T1()}, &schema.Column{Name: "y", Type: d.T1()}
		p.AddColumns(x, y)
		p.SetPrimaryKey(schema.NewPrimaryKey(x, y))
		p.AddIndexes(schema.NewUniqueIndex(pn+"_yx").AddColumns(y, x), schema.NewUniqueIndex(pn+"_x").AddColumns(x), schema.NewUniqueIndex(pn+"_y").AddColumns(y))
		parents[pn] = p
		s.AddTables(p)
	}
	c := schema.NewTable("c").SetSchema(s)
	id := &schema.Column{Name: "id", Type: d.T1()}
	a, b := &schema.Column{Name: "a", Type: d.T1()}, &schema.Column{Name: "b", Type: d.T1()}
	a.Type.Null, b.Type.Null = true, true
	c.AddColumns(id, a, b)
	c.SetPrimaryKey(schema.NewPrimaryKey(id))
	fk := schema.NewForeignKey("f1").SetTable(c).SetRefTable(parents[f.RefTable])
	for _, n := range f.Cols {
		col, _ := c.Column(n)
		fk.AddColumns(col)
	}
	for _, n := range f.RefCols {
		col, _ := parents[f.RefTable].Column(n)
		fk.AddRefColumns(col)
	}
	fk.SetOnUpdate(schema.ReferenceOption(f.OnUpd)).SetOnDelete(schema.ReferenceOption(f.OnDel))
	c.AddForeignKeys(fk)
	s.AddTables(c)
	return s
}

func fkMode(path string) {
	f, err := os.Open(path)
	if err != nil {
		panic(err)
	}
	sc := bufio.NewScanner(f)
	sc.Buffer(make([]byte, 1<<20), 1<<26)
	type mm struct {
		Dialect string   `json:"dialect"`
		Pair    fkPair   `json:"pair"`
		Want    []string `json:"want"`
		Got     []string `json:"got"`
		Err     string   `json:"err,omitempty"`
	}
	mism := []mm{}
	n, diffs := 0, 0
	ds := dialects()
	for sc.Scan() {
		var p fkPair
		if err := json.Unmarshal(sc.Bytes(), &p); err != nil {
			panic(err)
		}
		n++
		for _, d := range ds {
			want := []string{}
			if len(p.Flags) > 0 {
				fl := append([]string{}, p.Flags...)
				sort.Strings(fl)
				want = []string{"ModifyTable c ModifyFK f1 " + strings.Join(fl, ",")}
			}
			diffs++
			var (
				changes []schema.Change
				err     error
				pan     any
			)
			func() {
				defer func() { pan = recover() }()
				changes, err = d.differ.SchemaDiff(fkSchema(d.d, p.From), fkSchema(d.d, p.To), schema.DiffNormalized())
			}()
			got := absmodel.Project(changes)
			if got == nil {
				got = []string{}
			}
			if err != nil || pan != nil || !reflect.DeepEqual(got, want) {
				m := mm{Dialect: d.d.Name, Pair: p, Want: want, Got: got}
				if err != nil {
					m.Err = err.Error()
				}
				if pan != nil {
					m.Err = fmt.Sprint("panic: ", pan)
				}
				if len(mism) < 300 {
					mism = append(mism, m)
				}
			}
		}
	}
	json.NewEncoder(os.Stdout).Encode(map[string]any{"pairs": n, "diffs": diffs, "mismatches": mism})
}

func main() {
	if len(os.Args) > 2 && os.Args[2] == "fk" {
		fkMode(os.Args[1])
		return
	}
	skipMode := len(os.Args) > 2 && os.Args[2] == "skip"
	f, err := os.Open(os.Args[1])
	if err != nil {
		panic(err)
	}
	sc := bufio.NewScanner(f)
	sc.Buffer(make([]byte, 1<<20), 1<<26)
	var (
		n, diffs int
		mism     = []mismatch{}
		classes  = map[string]int{}
		samples  []any
	)
	ds := dialects()
	var typePairs []pair
	for sc.Scan() {
		var p pair
		if err := json.Unmarshal(sc.Bytes(), &p); err != nil {
			panic(err)
		}
		n++
		if len(typePairs) < 2 && isTypeChangeOnly(p) {
			typePairs = append(typePairs, p)
		}
		for _, d := range ds {
			want := absmodel.ExpectedFor(d.d, p.From, p.To, p.Diff)
			for _, w := range want {
				parts := strings.Fields(w)
				cl := parts[0]
				if len(parts) > 2 {
					cl = parts[2]
					if len(parts) > 4 {
						cl += " " + parts[4]
					}
				}
				classes[cl]++
			}
			var extra []schema.DiffOption
			run := func(mode string, from, to *schema.Schema, want []string) {
				diffs++
				var (
					changes []schema.Change
					err     error
					pan     any
				)
				func() {
					defer func() { pan = recover() }()
					changes, err = d.differ.SchemaDiff(from, to, append([]schema.DiffOption{schema.DiffNormalized()}, extra...)...)
				}()
				got := absmodel.Project(changes)
				if want == nil {
					want = []string{}
				}
				if got == nil {
					got = []string{}
				}
				if err != nil || pan != nil || !reflect.DeepEqual(got, want) {
					if len(mism) < 400 {
						m := mismatch{Dialect: d.d.Name, Mode: mode, Want: want, Got: got, Pair: p}
						if err != nil {
							m.Err = err.Error()
						}
						if pan != nil {
							m.Err = fmt.Sprint("panic: ", pan)
						}
						mism = append(mism, m)
					}
				}
			}
			if skipMode {
				// every single kind that occurs in the expectation, and all drop kinds together
				kindsIn := map[string]bool{}
				for _, w := range want {
					p := strings.Fields(w)
					kindsIn[p[0]] = true
					if p[0] == "ModifyTable" && len(p) > 2 {
						kindsIn[p[2]] = true
					}
				}
				sets := []map[string]bool{{"DropTable": true, "DropColumn": true, "DropIndex": true, "DropFK": true}}
				for k := range kindsIn {
					if _, ok := skipKinds[k]; ok {
						sets = append(sets, map[string]bool{k: true})
					}
				}
				for _, ks := range sets {
					var cs []schema.Change
					names := []string{}
					for k := range ks {
						cs = append(cs, skipKinds[k])
						names = append(names, k)
					}
					extra = []schema.DiffOption{schema.DiffSkipChanges(cs...)}
					run("skip:"+strings.Join(names, "+"), absmodel.Build(d.d, p.From, 0), absmodel.Build(d.d, p.To, 0), filterSkip(want, ks))
				}
				extra = nil
				continue
			}
			run("edit", absmodel.Build(d.d, p.From, 0), absmodel.Build(d.d, p.To, 0), want)
			// the same objects listed in another order: same change set
			run("edit-permuted", absmodel.Build(d.d, p.From, 0), absmodel.Build(d.d, p.To, 3), want)
			// self, deep copy and permuted copy: empty
			run("self", absmodel.Build(d.d, p.To, 0), absmodel.Build(d.d, p.To, 0), nil)
			run("self-permuted", absmodel.Build(d.d, p.To, 0), absmodel.Build(d.d, p.To, 3), nil)
		}
		if n%5003 == 3 && len(samples) < 3 {
			samples = append(samples, map[string]any{"from": p.From, "to": p.To, "expected": absmodel.Expected(ds[0].d, p.Diff)})
		}
	}
	ntypes := 0
	if !skipMode {
		// type matrix: the exported ChangeType pairs, with the opaque ids T1 / T2 bound to every ordered pair of the dialect's catalogue
		for _, d := range ds {
			cat := typeCatalogue(d.d.Name)
			for _, p := range typePairs {
				for i, ta := range cat {
					for j, tb := range cat {
						if i == j {
							continue
						}
						dd := *d.d
						dd.T1, dd.T2 = ta.mk, tb.mk
						want := absmodel.ExpectedFor(&dd, p.From, p.To, p.Diff)
						from, to := absmodel.Build(&dd, p.From, 0), absmodel.Build(&dd, p.To, 0)
						diffs++
						ntypes++
						var (
							changes []schema.Change
							err     error
							pan     any
						)
						func() {
							defer func() { pan = recover() }()
							changes, err = d.differ.SchemaDiff(from, to, schema.DiffNormalized())
						}()
						got := absmodel.Project(changes)
						if got == nil {
							got = []string{}
						}
						if err != nil || pan != nil || !reflect.DeepEqual(got, want) {
							m := mismatch{Dialect: d.d.Name, Mode: "types", Want: want, Got: got, Pair: p, Types: ta.name + " -> " + tb.name}
							if err != nil {
								m.Err = err.Error()
							}
							if pan != nil {
								m.Err = fmt.Sprint("panic: ", pan)
							}
							if len(mism) < 800 {
								mism = append(mism, m)
							}
						}
					}
				}
			}
		}
	}
	nattr := 0
	if !skipMode {
		// default and attribute matrices: one-column tables whose single column changes one attribute; the expectation is the flag
		// of that attribute, or nothing when both spellings denote the same value (class)
		for _, d := range ds {
			for _, c := range attrCases(d.d) {
				diffs++
				nattr++
				var (
					changes []schema.Change
					err     error
					pan     any
				)
				func() {
					defer func() { pan = recover() }()
					changes, err = d.differ.SchemaDiff(c.from, c.to, schema.DiffNormalized())
				}()
				got := absmodel.Project(changes)
				if got == nil {
					got = []string{}
				}
				if err != nil || pan != nil || !reflect.DeepEqual(got, c.want) {
					m := mismatch{Dialect: d.d.Name, Mode: "attrs", Want: c.want, Got: got, Types: c.label}
					if err != nil {
						m.Err = err.Error()
					}
					if pan != nil {
						m.Err = fmt.Sprint("panic: ", pan)
					}
					mism = append(mism, m)
				}
			}
		}
	}
	json.NewEncoder(os.Stdout).Encode(map[string]any{"pairs": n, "diffs": diffs, "type_pairs": ntypes, "attr_cases": nattr, "mismatches": mism, "classes": classes, "samples": samples})
}
