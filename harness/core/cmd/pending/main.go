// pending: compares Executor.Pending with the decisions exported by PendingEnum.tla (property C11).
// usage: pending <cases.ndjson>   -> JSON summary on stdout
package main

import (
	"bufio"
	"context"
	"encoding/json"
	"errors"
	"fmt"
	"os"
	"strings"

	"ariga.io/atlas/sql/migrate"
	"verif/core/fake"
)

type (
	dirEnt struct {
		Ver int  `json:"ver"`
		Ck  bool `json:"ck"`
	}
	revEnt struct {
		Ver  int  `json:"ver"`
		Done bool `json:"done"`
	}
	opts struct {
		Order      string `json:"order"`
		Baseline   int    `json:"baseline"`
		AllowDirty bool   `json:"allowDirty"`
		Clean      bool   `json:"clean"`
	}
	caseT struct {
		Dir  []dirEnt `json:"dir"`
		Revs []revEnt `json:"revs"`
		O    opts     `json:"o"`
	}
	want struct {
		Kind  string `json:"kind"`
		Files []int  `json:"files"`
		Ooo   []int  `json:"ooo"`
	}
	rec struct {
		C    caseT `json:"c"`
		Want want  `json:"want"`
	}
	mismatch struct {
		Case    caseT  `json:"case"`
		Want    want   `json:"want"`
		Got     want   `json:"got"`
		GotErr  string `json:"got_err"`
		Panic   string `json:"panic,omitempty"`
		PayOnly bool   `json:"payload_only"`
	}
)

func ver(v int) string { return fmt.Sprintf("%03d", v) }

func vers(fs []migrate.File) []int {
	out := []int{}
	for _, f := range fs {
		var v int
		fmt.Sscanf(f.Version(), "%d", &v)
		out = append(out, v)
	}
	return out
}

func run(c caseT) (got want, gerr string, pan string) {
	defer func() {
		if r := recover(); r != nil {
			pan = fmt.Sprint(r)
			got.Kind = "panic"
		}
	}()
	dir := &migrate.MemDir{}
	for _, f := range c.Dir {
		body := "CREATE TABLE t" + ver(f.Ver) + " (id int);\n"
		if f.Ck {
			body = "-- atlas:checkpoint\n\n" + body
		}
		if err := dir.WriteFile(ver(f.Ver)+"_f.sql", []byte(body)); err != nil {
			panic(err)
		}
	}
	sum, err := dir.Checksum()
	if err != nil {
		panic(err)
	}
	if err := migrate.WriteSumFile(dir, sum); err != nil {
		panic(err)
	}
	rrw := fake.NewRRW()
	for _, r := range c.Revs {
		rev := &migrate.Revision{Version: ver(r.Ver), Description: "f", Type: migrate.RevisionTypeExecute, Total: 1, Applied: 1}
		if !r.Done {
			rev.Applied = 0
		}
		rrw.Revs[rev.Version] = rev
	}
	drv := &fake.Driver{Clean: c.O.Clean}
	var eo []migrate.ExecutorOption
	switch c.O.Order {
	case "linear":
		eo = append(eo, migrate.WithExecOrder(migrate.ExecOrderLinear))
	case "linear-skip":
		eo = append(eo, migrate.WithExecOrder(migrate.ExecOrderLinearSkip))
	case "non-linear":
		eo = append(eo, migrate.WithExecOrder(migrate.ExecOrderNonLinear))
	}
	if c.O.Baseline != 0 {
		eo = append(eo, migrate.WithBaselineVersion(ver(c.O.Baseline)))
	}
	if c.O.AllowDirty {
		eo = append(eo, migrate.WithAllowDirty(true))
	}
	ex, err := migrate.NewExecutor(drv, dir, rrw, eo...)
	if err != nil {
		panic(err)
	}
	files, err := ex.Pending(context.Background())
	got = want{Files: []int{}, Ooo: []int{}}
	var (
		nl  *migrate.HistoryNonLinearError
		mm  *migrate.MissingMigrationError
		ncl *migrate.NotCleanError
	)
	switch {
	case err == nil:
		got.Kind = "ok"
		got.Files = vers(files)
	case errors.Is(err, migrate.ErrNoPendingFiles):
		got.Kind = "nopending"
	case errors.As(err, &nl):
		got.Kind = "nonlinear"
		got.Files = vers(nl.Pending)
		got.Ooo = vers(nl.OutOfOrder)
	case errors.As(err, &mm):
		got.Kind = "missing"
	case errors.As(err, &ncl):
		got.Kind = "notclean"
	case strings.Contains(err.Error(), "baseline version") && strings.Contains(err.Error(), "not found"):
		got.Kind = "nobaseline"
	default:
		got.Kind = "other"
	}
	if err != nil {
		gerr = err.Error()
	}
	return
}

func eq(a, b []int) bool {
	if len(a) != len(b) {
		return false
	}
	for i := range a {
		if a[i] != b[i] {
			return false
		}
	}
	return true
}

func main() {
	f, err := os.Open(os.Args[1])
	if err != nil {
		panic(err)
	}
	sc := bufio.NewScanner(f)
	sc.Buffer(make([]byte, 1<<20), 1<<26)
	var (
		n      int
		kinds  = map[string]int{}
		mism   = []mismatch{}
		sample []rec
	)
	for sc.Scan() {
		var r rec
		if err := json.Unmarshal(sc.Bytes(), &r); err != nil {
			panic(err)
		}
		n++
		if n%9973 == 1 && len(sample) < 4 {
			sample = append(sample, r)
		}
		got, gerr, pan := run(r.C)
		kinds[got.Kind]++
		// Verdict fields: decision class and pending list. The OutOfOrder payload is conformance only.
		if got.Kind != r.Want.Kind || (got.Kind == "ok" && !eq(got.Files, r.Want.Files)) {
			mism = append(mism, mismatch{Case: r.C, Want: r.Want, Got: got, GotErr: gerr, Panic: pan})
		} else if got.Kind == "nonlinear" && (!eq(got.Files, r.Want.Files) || !eq(got.Ooo, r.Want.Ooo)) {
			mism = append(mism, mismatch{Case: r.C, Want: r.Want, Got: got, GotErr: gerr, PayOnly: true})
		}
	}
	out := map[string]any{"cases": n, "kinds": kinds, "mismatches": mism, "samples": sample}
	json.NewEncoder(os.Stdout).Encode(out)
}
