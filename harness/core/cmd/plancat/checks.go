package main

import (
	"context"
	"fmt"

	"ariga.io/atlas/sql/schema"
)

// C17 at catalogue level for CHECK constraints (MySQL / PostgreSQL, no engine): every ordered selection of element changes
// {add named check, add unnamed check, add second named check, drop named check} in one ModifyTable; when the plan is reported
// reversible, up followed by down must restore the set of live checks (an unnamed check cannot be dropped by a statement, so a plan
// that adds one is not reversible).
func runChecks() {
	type el struct {
		name string
		mk   func(t *schema.Table) schema.Change
	}
	els := []el{
		{"add-named-ck_a", func(t *schema.Table) schema.Change {
			return &schema.AddCheck{C: schema.NewCheck().SetName("ck_a").SetExpr("id > 0")}
		}},
		{"add-unnamed", func(t *schema.Table) schema.Change { return &schema.AddCheck{C: schema.NewCheck().SetExpr("id > 1")} }},
		{"add-named-ck_b", func(t *schema.Table) schema.Change {
			return &schema.AddCheck{C: schema.NewCheck().SetName("ck_b").SetExpr("id > 2")}
		}},
		{"add-column", func(t *schema.Table) schema.Change {
			return &schema.AddColumn{C: &schema.Column{Name: "extra", Type: t.Columns[0].Type}}
		}},
	}
	var perms func(cur []int, used int)
	var seqs [][]int
	perms = func(cur []int, used int) {
		if len(cur) > 0 {
			seqs = append(seqs, append([]int{}, cur...))
		}
		if len(cur) == 3 {
			return
		}
		for i := range els {
			if used&(1<<i) == 0 {
				perms(append(cur, i), used|1<<i)
			}
		}
	}
	perms(nil, 0)
	for _, d := range []string{"mysql", "postgres"} {
		for _, seq := range seqs {
			w := build(1, nil, d)
			t := w.tables[0]
			var cs []schema.Change
			name := ""
			for _, i := range seq {
				cs = append(cs, els[i].mk(t))
				name += els[i].name + ","
			}
			sc := &scenario{ID: len(cases) + 1, Dialect: d, N: 1, Roles: name, Req: "realm", Dir: "checks-updown"}
			cases = append(cases, sc)
			sc.First = line + 1
			emit(ev{"ev": "reset", "c": sc.ID, "req": "realm", "schema": marker, "dialect": d,
				"start": map[string]any{"tables": []string{"a"}, "fks": []fk5{}}, "want": map[string]any{"tables": []string{"a"}, "fks": []fk5{}}})
			pl, err := planner(d).PlanChanges(context.Background(), "plan", []schema.Change{&schema.ModifyTable{T: t, Changes: cs}})
			if err != nil {
				sc.Err = err.Error()
				emit(ev{"ev": "reject", "c": sc.ID, "owed": true, "err": sc.Err})
				sc.Last = line
				continue
			}
			if !pl.Reversible {
				emit(ev{"ev": "reject", "c": sc.ID, "owed": true, "err": "plan not reversible"})
				sc.Last = line
				continue
			}
			replay := func(sql string, down bool) {
				if down {
					sc.Stmts = append(sc.Stmts, "-- down: "+sql)
				} else {
					sc.Stmts = append(sc.Stmts, sql)
				}
				for _, e := range events(sc.ID, sql) {
					emit(e)
				}
			}
			for _, c := range pl.Changes {
				replay(c.Cmd, false)
			}
			bad := false
			for i := len(pl.Changes) - 1; i >= 0; i-- {
				rs, err := pl.Changes[i].ReverseStmts()
				if err != nil {
					emit(ev{"ev": "reject", "c": sc.ID, "owed": false, "err": fmt.Sprint("reverse: ", err)})
					bad = true
					break
				}
				for _, s := range rs {
					replay(s, true)
				}
			}
			if !bad {
				emit(ev{"ev": "end", "c": sc.ID, "mustreject": false, "checksmatter": true, "wantchecks": [][2]string{}})
			}
			sc.Last = line
		}
	}
}
