package main

import (
	"context"
	"fmt"

	"ariga.io/atlas/sql/migrate"
	"ariga.io/atlas/sql/postgres"
	"ariga.io/atlas/sql/schema"
)

// C16 scenarios: schema-scoped planning with no / empty / custom qualifier over a catalogue of change kinds
// (tables, enums, indexes, comments, foreign keys, drops, modifications, renames), forward and reverse statements,
// plus change sets that must be refused (two schemas, schema-level changes).

type qcase struct {
	name       string
	changes    func(d string) []schema.Change
	mustReject bool
}

func qtypes(d string) (intT, strT *schema.ColumnType) {
	if d == "postgres" {
		return &schema.ColumnType{Type: &schema.IntegerType{T: "integer"}, Raw: "integer"},
			&schema.ColumnType{Type: &schema.StringType{T: "character varying", Size: 255}, Raw: "character varying(255)"}
	}
	return &schema.ColumnType{Type: &schema.IntegerType{T: "int"}, Raw: "int"},
		&schema.ColumnType{Type: &schema.StringType{T: "varchar", Size: 255}, Raw: "varchar(255)"}
}

type qworld struct {
	s, other *schema.Schema
	a, b, c  *schema.Table
	enum     *schema.EnumType
}

func qbuild(d string) *qworld {
	intT, strT := qtypes(d)
	w := &qworld{s: schema.New(marker), other: schema.New("other_" + marker)}
	mk := func(s *schema.Schema, name string) *schema.Table {
		t := schema.NewTable(name).SetSchema(s)
		id := &schema.Column{Name: "id", Type: intT}
		x := &schema.Column{Name: "x", Type: strT}
		t.AddColumns(id, x)
		t.SetPrimaryKey(schema.NewPrimaryKey(id))
		t.AddIndexes(schema.NewIndex(name + "_x").AddColumns(x))
		t.SetComment("table " + name)
		return t
	}
	w.a, w.b, w.c = mk(w.s, "a"), mk(w.s, "b"), mk(w.other, "c")
	w.enum = &schema.EnumType{T: "mood", Values: []string{"happy", "sad"}, Schema: w.s}
	ecol := &schema.Column{Name: "m", Type: &schema.ColumnType{Type: w.enum, Raw: "mood"}}
	w.a.AddColumns(ecol)
	bid := &schema.Column{Name: "b_id", Type: intT}
	w.a.AddColumns(bid)
	w.a.AddForeignKeys(schema.NewForeignKey("fk_a_b").SetTable(w.a).AddColumns(bid).SetRefTable(w.b).AddRefColumns(w.b.Columns[0]).SetOnDelete(schema.Cascade))
	w.s.AddTables(w.a, w.b)
	w.other.AddTables(w.c)
	return w
}

func qcases() []qcase {
	mod := func(f func(w *qworld, d string) []schema.Change) func(d string) []schema.Change {
		return func(d string) []schema.Change {
			w := qbuild(d)
			return []schema.Change{&schema.ModifyTable{T: w.a, Changes: f(w, d)}}
		}
	}
	return []qcase{
		{"add-tables", func(d string) []schema.Change {
			w := qbuild(d)
			return []schema.Change{&schema.AddTable{T: w.a}, &schema.AddTable{T: w.b}}
		}, false},
		{"add-table-b", func(d string) []schema.Change { w := qbuild(d); return []schema.Change{&schema.AddTable{T: w.b}} }, false},
		{"drop-tables", func(d string) []schema.Change {
			w := qbuild(d)
			return []schema.Change{&schema.DropTable{T: w.a}, &schema.DropTable{T: w.b}}
		}, false},
		{"drop-table-a", func(d string) []schema.Change { w := qbuild(d); return []schema.Change{&schema.DropTable{T: w.a}} }, false},
		{"add-column", mod(func(w *qworld, d string) []schema.Change {
			_, strT := qtypes(d)
			return []schema.Change{&schema.AddColumn{C: &schema.Column{Name: "y", Type: strT}}}
		}), false},
		{"drop-column", mod(func(w *qworld, d string) []schema.Change {
			return []schema.Change{&schema.DropColumn{C: w.a.Columns[1]}}
		}), false},
		{"modify-column", mod(func(w *qworld, d string) []schema.Change {
			intT, _ := qtypes(d)
			to := &schema.Column{Name: "x", Type: intT}
			return []schema.Change{&schema.ModifyColumn{From: w.a.Columns[1], To: to, Change: schema.ChangeType}}
		}), false},
		{"modify-column-null-comment", mod(func(w *qworld, d string) []schema.Change {
			_, strT := qtypes(d)
			to := &schema.Column{Name: "x", Type: &schema.ColumnType{Type: strT.Type, Raw: strT.Raw, Null: true}}
			to.SetComment("c")
			return []schema.Change{&schema.ModifyColumn{From: w.a.Columns[1], To: to, Change: schema.ChangeNull | schema.ChangeComment}}
		}), false},
		{"rename-column", mod(func(w *qworld, d string) []schema.Change {
			_, strT := qtypes(d)
			return []schema.Change{&schema.RenameColumn{From: w.a.Columns[1], To: &schema.Column{Name: "x2", Type: strT}}}
		}), false},
		{"add-index", mod(func(w *qworld, d string) []schema.Change {
			return []schema.Change{&schema.AddIndex{I: schema.NewIndex("a_id_x").AddColumns(w.a.Columns[0], w.a.Columns[1])}}
		}), false},
		{"add-unique-index", mod(func(w *qworld, d string) []schema.Change {
			return []schema.Change{&schema.AddIndex{I: schema.NewUniqueIndex("a_u").AddColumns(w.a.Columns[1])}}
		}), false},
		{"drop-index", mod(func(w *qworld, d string) []schema.Change {
			return []schema.Change{&schema.DropIndex{I: w.a.Indexes[0]}}
		}), false},
		{"modify-index", mod(func(w *qworld, d string) []schema.Change {
			to := schema.NewUniqueIndex("a_x").AddColumns(w.a.Columns[1])
			to.Table = w.a
			return []schema.Change{&schema.ModifyIndex{From: w.a.Indexes[0], To: to, Change: schema.ChangeUnique}}
		}), false},
		{"rename-index", mod(func(w *qworld, d string) []schema.Change {
			to := schema.NewIndex("a_x_renamed").AddColumns(w.a.Columns[1])
			to.Table = w.a
			return []schema.Change{&schema.RenameIndex{From: w.a.Indexes[0], To: to}}
		}), false},
		{"add-fk", func(d string) []schema.Change {
			w := qbuild(d)
			fk := w.a.ForeignKeys[0]
			w.a.ForeignKeys = nil
			w.a.AddForeignKeys(fk)
			return []schema.Change{&schema.ModifyTable{T: w.a, Changes: []schema.Change{&schema.AddForeignKey{F: fk}}}}
		}, false},
		{"drop-fk", mod(func(w *qworld, d string) []schema.Change {
			return []schema.Change{&schema.DropForeignKey{F: w.a.ForeignKeys[0]}}
		}), false},
		{"modify-fk", mod(func(w *qworld, d string) []schema.Change {
			f := w.a.ForeignKeys[0]
			to := *f
			to.OnDelete = schema.NoAction
			return []schema.Change{&schema.ModifyForeignKey{From: f, To: &to, Change: schema.ChangeDeleteAction}}
		}), false},
		{"table-comment", mod(func(w *qworld, d string) []schema.Change {
			return []schema.Change{&schema.ModifyAttr{From: &schema.Comment{Text: "table a"}, To: &schema.Comment{Text: "new"}}}
		}), false},
		{"add-check", mod(func(w *qworld, d string) []schema.Change {
			return []schema.Change{&schema.AddCheck{C: schema.NewCheck().SetName("ck").SetExpr("id > 0")}}
		}), false},
		{"rename-table", func(d string) []schema.Change {
			w := qbuild(d)
			to := *w.b
			to.Name = "b2"
			return []schema.Change{&schema.RenameTable{From: w.b, To: &to}}
		}, false},
		{"combo", func(d string) []schema.Change {
			w := qbuild(d)
			_, strT := qtypes(d)
			return []schema.Change{
				&schema.ModifyTable{T: w.a, Changes: []schema.Change{
					&schema.AddColumn{C: &schema.Column{Name: "y", Type: strT}},
					&schema.DropIndex{I: w.a.Indexes[0]},
					&schema.DropForeignKey{F: w.a.ForeignKeys[0]},
				}},
				&schema.DropTable{T: w.b},
			}
		}, false},
		// ---- must be refused ------------------------------------------------------------------------------
		{"two-schemas", func(d string) []schema.Change {
			w := qbuild(d)
			return []schema.Change{&schema.AddTable{T: w.b}, &schema.AddTable{T: w.c}}
		}, true},
		{"two-schemas-modify", func(d string) []schema.Change {
			w := qbuild(d)
			return []schema.Change{&schema.DropTable{T: w.b}, &schema.ModifyTable{T: w.c, Changes: []schema.Change{&schema.DropIndex{I: w.c.Indexes[0]}}}}
		}, true},
		{"add-schema", func(d string) []schema.Change {
			w := qbuild(d)
			return []schema.Change{&schema.AddSchema{S: w.s}, &schema.AddTable{T: w.b}}
		}, true},
		{"drop-schema", func(d string) []schema.Change { w := qbuild(d); return []schema.Change{&schema.DropSchema{S: w.s}} }, true},
		{"modify-schema", func(d string) []schema.Change {
			w := qbuild(d)
			return []schema.Change{&schema.ModifySchema{S: w.s, Changes: []schema.Change{&schema.AddAttr{A: &schema.Comment{Text: "x"}}}}, &schema.AddTable{T: w.b}}
		}, true},
		// (a table whose enum type lives in another schema is NOT in the must-reject set: the repository's own
		//  TestPlanChanges/50 expects such a change set to be planned with the qualifier stripped.)
	}
}

func runQual() {
	_ = postgres.DefaultPlan
	for _, d := range []string{"mysql", "postgres"} {
		for _, qc := range qcases() {
			reqs := []string{"none", "q1"}
			if qc.mustReject {
				// a custom qualifier that happens to be the name of one of the schemas involved changes nothing: still out of scope
				reqs = append(reqs, marker, "other_"+marker)
			}
			for _, req := range reqs {
				sc := &scenario{ID: len(cases) + 1, Dialect: d, Roles: qc.name, Req: req, Dir: "qual"}
				cases = append(cases, sc)
				sc.First = line + 1
				emit(ev{"ev": "reset", "c": sc.ID, "req": req, "schema": marker, "dialect": d,
					"start": map[string]any{"tables": []string{}, "fks": []fk5{}}, "want": map[string]any{"tables": []string{}, "fks": []fk5{}}})
				var opts []migrate.PlanOption
				if req == "none" {
					opts = append(opts, func(o *migrate.PlanOptions) { o.SchemaQualifier = new(string) })
				} else {
					q := req
					opts = append(opts, func(o *migrate.PlanOptions) { o.SchemaQualifier = &q })
				}
				var (
					pl  *migrate.Plan
					err error
				)
				func() {
					defer func() {
						if r := recover(); r != nil {
							err = fmt.Errorf("panic: %v", r)
						}
					}()
					pl, err = planner(d).PlanChanges(context.Background(), "plan", qc.changes(d), opts...)
				}()
				if err != nil {
					sc.Err = err.Error()
					emit(ev{"ev": "reject", "c": sc.ID, "owed": qc.mustReject, "err": sc.Err})
					sc.Last = line
					continue
				}
				one := func(sql string, rev bool) {
					for _, e := range events(sc.ID, sql) {
						e["ev"] = "qstmt"
						e["reverse"] = rev
						emit(e)
					}
					if rev {
						sql = "-- down: " + sql
					}
					sc.Stmts = append(sc.Stmts, sql)
				}
				for _, c := range pl.Changes {
					one(c.Cmd, false)
					rs, _ := c.ReverseStmts()
					for _, s := range rs {
						one(s, true)
					}
				}
				emit(ev{"ev": "end", "c": sc.ID, "mustreject": qc.mustReject, "checksmatter": false, "wantchecks": [][2]string{}})
				sc.Last = line
			}
		}
	}
}
