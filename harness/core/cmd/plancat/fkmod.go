package main

import (
	"context"
	"fmt"

	"ariga.io/atlas/sql/schema"
)

// A foreign key modified in place (C04: the plan is executable and ends in the wanted catalogue; C17 at catalogue level: up followed
// by down gives back the old definition). Child table a keeps its constraint fk_a while the referenced table (b, c or a itself) and
// the ON UPDATE / ON DELETE actions go from one definition to another: every ordered pair of distinct definitions, alone in its
// ModifyTable or next to a column added before / after it, for both planners, planned up and up+down.
func runFKMod() {
	type def struct {
		ref      int
		upd, del schema.ReferenceOption
	}
	var defs []def
	for ref := 0; ref < 3; ref++ {
		for _, u := range []schema.ReferenceOption{"", schema.NoAction, schema.Cascade} {
			for _, d := range []schema.ReferenceOption{"", schema.SetNull, schema.Cascade} {
				defs = append(defs, def{ref, u, d})
			}
		}
	}
	for _, dialect := range []string{"mysql", "postgres"} {
		for _, from := range defs {
			for _, to := range defs {
				if from == to {
					continue
				}
				for _, with := range []string{"alone", "column-before", "column-after"} {
					if with != "alone" && (from.ref+to.ref+len(from.upd)+len(to.del))%3 != 0 {
						continue // the companions on a third of the pairs
					}
					for _, updown := range []bool{false, true} {
						fkmodScenario(dialect, from.ref, to.ref, [2]schema.ReferenceOption{from.upd, from.del}, [2]schema.ReferenceOption{to.upd, to.del}, with, updown)
					}
				}
			}
		}
	}
}

func fkmodScenario(dialect string, fromRef, toRef int, fromAct, toAct [2]schema.ReferenceOption, with string, updown bool) {
	w := build(3, nil, dialect)
	child := w.tables[0]
	ct := *child.Columns[0].Type
	ct.Null = true
	col := &schema.Column{Name: "ref_id", Type: &ct}
	child.AddColumns(col)
	mk := func(ref int, act [2]schema.ReferenceOption) *schema.ForeignKey {
		p := w.tables[ref]
		return schema.NewForeignKey("fk_a").SetTable(child).AddColumns(col).SetRefTable(p).AddRefColumns(p.Columns[0]).SetOnUpdate(act[0]).SetOnDelete(act[1])
	}
	from, to := mk(fromRef, fromAct), mk(toRef, toAct)
	var kind schema.ChangeKind
	if fromRef != toRef {
		kind |= schema.ChangeRefTable | schema.ChangeRefColumn
	}
	if fromAct[0] != toAct[0] {
		kind |= schema.ChangeUpdateAction
	}
	if fromAct[1] != toAct[1] {
		kind |= schema.ChangeDeleteAction
	}
	child.ForeignKeys = []*schema.ForeignKey{to}
	cs := []schema.Change{&schema.ModifyForeignKey{From: from, To: to, Change: kind}}
	extra := &schema.AddColumn{C: &schema.Column{Name: "extra", Type: child.Columns[0].Type}}
	switch with {
	case "column-before":
		cs = append([]schema.Change{extra}, cs...)
	case "column-after":
		cs = append(cs, extra)
	}
	dir := "fkmod-up"
	if updown {
		dir = "fkmod-updown"
	}
	sc := &scenario{ID: len(cases) + 1, Dialect: dialect, N: 3, Req: "realm", Dir: dir,
		Roles: fmt.Sprintf("%s: %v -> %v", with, fkTuple(from), fkTuple(to))}
	cases = append(cases, sc)
	sc.First = line + 1
	tables := []string{"a", "b", "c"}
	want := to
	if updown {
		want = from
	}
	emit(ev{"ev": "reset", "c": sc.ID, "req": "realm", "schema": marker, "dialect": dialect,
		"start": map[string]any{"tables": tables, "fks": []fk5{fkTuple(from)}},
		"want":  map[string]any{"tables": tables, "fks": []fk5{fkTuple(want)}}})
	pl, err := planner(dialect).PlanChanges(context.Background(), "plan", []schema.Change{&schema.ModifyTable{T: child, Changes: cs}})
	if err != nil {
		sc.Err = err.Error()
		emit(ev{"ev": "reject", "c": sc.ID, "owed": false, "err": sc.Err})
		sc.Last = line
		return
	}
	for _, c := range pl.Changes {
		sc.Stmts = append(sc.Stmts, c.Cmd)
		for _, e := range events(sc.ID, c.Cmd) {
			emit(e)
		}
	}
	if updown {
		if !pl.Reversible {
			emit(ev{"ev": "reject", "c": sc.ID, "owed": true, "err": "plan not reversible"})
			sc.Last = line
			return
		}
		for i := len(pl.Changes) - 1; i >= 0; i-- {
			rs, err := pl.Changes[i].ReverseStmts()
			if err != nil {
				emit(ev{"ev": "reject", "c": sc.ID, "owed": false, "err": "reverse: " + err.Error()})
				sc.Last = line
				return
			}
			for _, s := range rs {
				sc.Stmts = append(sc.Stmts, "-- down: "+s)
				for _, e := range events(sc.ID, s) {
					emit(e)
				}
			}
		}
	}
	emit(ev{"ev": "end", "c": sc.ID, "mustreject": false, "checksmatter": false, "wantchecks": [][2]string{}})
	sc.Last = line
}
