// plancat: plans enumerated foreign-key scenarios with the MySQL and PostgreSQL planners (no database) and writes the
// tokenised statements as events for PlanCatalogTrace.tla (C04: dependency order, C16: qualifiers, C17: catalogue-level up/down).
//
//	plancat -n 3 -roles all|createdrop -out trace.ndjson -cases cases.json [-sample 0.1 -seed 1] [-qual]
package main

import (
	"bufio"
	"context"
	"encoding/json"
	"flag"
	"fmt"
	"math/rand"
	"os"
	"regexp"
	"sort"
	"strings"
	"time"

	"ariga.io/atlas/sql/migrate"
	"ariga.io/atlas/sql/mysql"
	"ariga.io/atlas/sql/postgres"
	"ariga.io/atlas/sql/schema"
)

const marker = "tenant_zq" // the scoped schema's name: must never be mentioned by a schema-scoped plan

type ev map[string]any

// fk5 is a foreign key of the catalogue model; it travels as [child, parent, name, definition, [columns]].
type fk5 struct {
	Child, Parent, Name, Def string
	Cols                     []string
}

func (f fk5) MarshalJSON() ([]byte, error) {
	cols := f.Cols
	if cols == nil {
		cols = []string{}
	}
	return json.Marshal([]any{f.Child, f.Parent, f.Name, f.Def, cols})
}

func identList(s string) []string {
	out := []string{}
	for _, x := range reIdentOnly.FindAllString(s, -1) {
		out = append(out, unq(x))
	}
	return out
}

type scenario struct {
	ID      int            `json:"id"`
	Dialect string         `json:"dialect"`
	N       int            `json:"n"`
	Graph   [][2]int       `json:"graph"`
	Roles   string         `json:"roles"` // per table: c(reated) d(ropped) k(ept)
	Req     string         `json:"req"`
	Dir     string         `json:"dir"` // up | updown
	First   int            `json:"first"`
	Last    int            `json:"last"`
	Err     string         `json:"err,omitempty"`
	Stmts   []string       `json:"stmts,omitempty"`
	Extra   map[string]any `json:"extra,omitempty"` // further fields of the generated case (known-finding signatures)
}

var (
	out   *bufio.Writer
	line  int
	cases []*scenario
	names = []string{"a", "b", "c", "d", "e", "f", "g", "h"}
)

func emit(e ev) {
	b, _ := json.Marshal(e)
	out.Write(b)
	out.WriteByte('\n')
	line++
}

type world struct {
	s      *schema.Schema
	tables []*schema.Table
	fk     map[[2]int]*schema.ForeignKey
}

func build(n int, edges [][2]int, dialect string) *world {
	w := &world{s: schema.New(marker), fk: map[[2]int]*schema.ForeignKey{}}
	intT := &schema.ColumnType{Type: &schema.IntegerType{T: "int"}, Raw: "int"}
	if dialect == "postgres" {
		intT = &schema.ColumnType{Type: &schema.IntegerType{T: "integer"}, Raw: "integer"}
	}
	for i := 0; i < n; i++ {
		t := schema.NewTable(names[i]).SetSchema(w.s)
		id := &schema.Column{Name: "id", Type: intT}
		t.AddColumns(id)
		t.SetPrimaryKey(schema.NewPrimaryKey(id))
		w.tables = append(w.tables, t)
	}
	for _, e := range edges {
		c, p := w.tables[e[0]], w.tables[e[1]]
		col := &schema.Column{Name: p.Name + "_id", Type: intT}
		c.AddColumns(col)
		fk := schema.NewForeignKey(fmt.Sprintf("fk_%s_%s", c.Name, p.Name)).SetTable(c).AddColumns(col).SetRefTable(p).AddRefColumns(p.Columns[0])
		w.fk[e] = fk
	}
	return w
}

// tableWith returns a copy of table i carrying exactly the given foreign keys (the table as it exists in one state).
func (w *world) tableWith(i int, fks []*schema.ForeignKey) *schema.Table {
	t := *w.tables[i]
	t.ForeignKeys = fks
	return &t
}

type plan struct {
	dropped int // columns dropped next to their foreign keys
	changes []schema.Change
	start   struct {
		tables []string
		fks    []fk5
	}
	want struct {
		tables []string
		fks    []fk5
	}
}

// scenarioChanges derives the change set, the start and the wanted catalogue from (graph, roles).
func scenarioChanges(w *world, n int, edges [][2]int, roles string, dropcol bool) *plan {
	p := &plan{}
	p.start.tables, p.start.fks, p.want.tables, p.want.fks = []string{}, []fk5{}, []string{}, []fk5{}
	exists0 := func(i int) bool { return roles[i] != 'c' }
	exists1 := func(i int) bool { return roles[i] != 'd' }
	startF := map[int][]*schema.ForeignKey{}
	endF := map[int][]*schema.ForeignKey{}
	addF := map[int][]*schema.ForeignKey{}
	dropF := map[int][]*schema.ForeignKey{}
	for _, e := range edges {
		c, pa := e[0], e[1]
		fk := w.fk[e]
		switch rc, rp := roles[c], roles[pa]; {
		case rc == 'c' && rp != 'd':
			endF[c] = append(endF[c], fk)
		case rc == 'd' && rp != 'c':
			startF[c] = append(startF[c], fk)
		case rc == 'k' && rp == 'c':
			addF[c] = append(addF[c], fk)
			endF[c] = append(endF[c], fk)
		case rc == 'k' && rp == 'd':
			dropF[c] = append(dropF[c], fk)
			startF[c] = append(startF[c], fk)
		case rc == 'k' && rp == 'k':
			switch {
			case c <= pa: // added
				addF[c] = append(addF[c], fk)
				endF[c] = append(endF[c], fk)
			default: // dropped
				dropF[c] = append(dropF[c], fk)
				startF[c] = append(startF[c], fk)
			}
		}
	}
	for i := 0; i < n; i++ {
		if exists0(i) {
			p.start.tables = append(p.start.tables, names[i])
			for _, fk := range startF[i] {
				p.start.fks = append(p.start.fks, fkTuple(fk))
			}
		}
		if exists1(i) {
			p.want.tables = append(p.want.tables, names[i])
			for _, fk := range endF[i] {
				p.want.fks = append(p.want.fks, fkTuple(fk))
			}
		}
	}
	// Every table object must carry consistent FK lists: the planners look at T.ForeignKeys.
	for i := 0; i < n; i++ {
		switch roles[i] {
		case 'c':
			w.tables[i].ForeignKeys = endF[i]
			p.changes = append(p.changes, &schema.AddTable{T: w.tables[i]})
		case 'd':
			w.tables[i].ForeignKeys = startF[i]
			p.changes = append(p.changes, &schema.DropTable{T: w.tables[i]})
		case 'k':
			w.tables[i].ForeignKeys = endF[i]
			var cs []schema.Change
			for _, fk := range addF[i] {
				cs = append(cs, &schema.AddForeignKey{F: fk})
			}
			for _, fk := range dropF[i] {
				cs = append(cs, &schema.DropForeignKey{F: fk})
			}
			if dropcol {
				// the columns of the dropped foreign keys go away with them (a column used by two keys once)
				seen := map[string]bool{}
				for _, fk := range dropF[i] {
					for _, c := range fk.Columns {
						if !seen[c.Name] {
							seen[c.Name] = true
							cs = append(cs, &schema.DropColumn{C: c})
							p.dropped++
						}
					}
				}
			}
			if len(cs) > 0 {
				p.changes = append(p.changes, &schema.ModifyTable{T: w.tables[i], Changes: cs})
			}
		}
	}
	return p
}

var (
	reIdent      = `(?:` + "`[^`]+`" + `|"[^"]+")`
	reQualified  = regexp.MustCompile(`(` + reIdent + `)\.(` + reIdent + `)`)
	reCreate     = regexp.MustCompile(`^CREATE TABLE (?:IF NOT EXISTS )?((?:` + reIdent + `\.)?` + reIdent + `)`)
	reActions    = `((?: ON (?:UPDATE|DELETE) (?:NO ACTION|RESTRICT|CASCADE|SET NULL|SET DEFAULT))*)`
	reInline     = regexp.MustCompile(`CONSTRAINT (` + reIdent + `) FOREIGN KEY \(([^)]*)\) REFERENCES ((?:` + reIdent + `\.)?` + reIdent + `) ?\([^)]*\)` + reActions)
	reAlter      = regexp.MustCompile(`^ALTER TABLE ((?:` + reIdent + `\.)?` + reIdent + `) (.*)$`)
	reAddFK      = regexp.MustCompile(`ADD CONSTRAINT (` + reIdent + `) FOREIGN KEY \(([^)]*)\) REFERENCES ((?:` + reIdent + `\.)?` + reIdent + `) ?\([^)]*\)` + reActions)
	reDropFK     = regexp.MustCompile(`DROP (?:FOREIGN KEY|CONSTRAINT) (` + reIdent + `)`)
	reAddChk     = regexp.MustCompile(`ADD (?:CONSTRAINT (` + reIdent + `) )?CHECK \(`)
	reDropChk    = regexp.MustCompile(`DROP (?:CONSTRAINT|CHECK) (` + "[`\"]ck_[a-z0-9_]+[`\"]" + `)`)
	reAddIdx     = regexp.MustCompile(`ADD (?:UNIQUE |FULLTEXT |SPATIAL )?(?:INDEX|KEY) (` + reIdent + `)(?: USING \w+)? ?\(([^)]*)\)`)
	reCreateIdx  = regexp.MustCompile(`^CREATE (?:UNIQUE )?INDEX (?:CONCURRENTLY )?(?:IF NOT EXISTS )?` + reIdent + ` ON ((?:` + reIdent + `\.)?` + reIdent + `)(?: USING \w+)? ?\(([^)]*)\)`)
	reDropCol    = regexp.MustCompile(`DROP COLUMN (` + reIdent + `)`)
	reDropT      = regexp.MustCompile(`^DROP TABLE (?:IF EXISTS )?((?:` + reIdent + `\.)?` + reIdent + `)`)
	reCommentCol = regexp.MustCompile(`COMMENT ON COLUMN (` + reIdent + `(?:\.` + reIdent + `){1,2})`)
	reIdentOnly  = regexp.MustCompile(reIdent)
	reSchemaSt   = regexp.MustCompile(`^(CREATE|DROP|ALTER) (SCHEMA|DATABASE)\b`)
	// positions where a table / type / (PostgreSQL) index is referenced and may carry a schema qualifier
	reRefPos = regexp.MustCompile(`(?:\bTABLE|\bREFERENCES|\bTYPE|\bON|DROP INDEX(?: CONCURRENTLY)?|ALTER INDEX) (?:IF (?:NOT )?EXISTS )?((?:` + reIdent + `\.)?` + reIdent + `)`)
)

// fkTuple is a foreign key as the catalogue model sees it: child, parent, constraint name and the rest of its definition spelled the
// way both planners spell it.
func fkTuple(fk *schema.ForeignKey) fk5 {
	var d []string
	if fk.OnUpdate != "" {
		d = append(d, "ON UPDATE "+string(fk.OnUpdate))
	}
	if fk.OnDelete != "" {
		d = append(d, "ON DELETE "+string(fk.OnDelete))
	}
	cols := []string{}
	for _, c := range fk.Columns {
		cols = append(cols, c.Name)
	}
	return fk5{fk.Table.Name, fk.RefTable.Name, fk.Symbol, strings.Join(d, " "), cols}
}

// nparts: 0 for an empty key-part list, otherwise a positive number (the text up to the first closing parenthesis is enough to tell)
func nparts(list string) int {
	if strings.TrimSpace(list) == "" {
		return 0
	}
	return 1 + strings.Count(list, ",")
}

func unq(s string) string { return strings.Trim(s, "`\"") }

// split "a"."b" -> (qualifier, name)
func splitQ(s string) (string, string) {
	if m := reQualified.FindStringSubmatch(s); m != nil && m[0] == s {
		return unq(m[1]), unq(m[2])
	}
	return "", unq(s)
}

// tokenise one SQL statement into catalogue events.
func events(cid int, cmd string) []ev {
	flat := strings.Join(strings.Fields(cmd), " ")
	quals := map[string]bool{}
	// COMMENT ON COLUMN [schema.]table.column: the last dotted part is the column
	scan := flat
	if m := reCommentCol.FindStringSubmatch(flat); m != nil {
		parts := reIdentOnly.FindAllString(m[1], -1)
		if len(parts) == 3 {
			quals[unq(parts[0])] = true
		} else {
			quals[""] = true
		}
		scan = strings.Replace(flat, m[0], "COMMENT ON COLUMN _", 1)
	}
	flat0 := flat
	flat = scan
	defer func() { _ = flat0 }()
	mysqlStmt := strings.Contains(flat, "`")
	for _, m := range reRefPos.FindAllStringSubmatch(flat, -1) {
		if mysqlStmt && strings.Contains(m[0], "INDEX") {
			continue // MySQL index names are scoped by their table, never by a schema
		}
		q, _ := splitQ(m[1])
		quals[q] = true
	}
	// any dotted pair of quoted identifiers is schema.object (a column type, a comment target, ...)
	for _, m := range reQualified.FindAllStringSubmatch(flat, -1) {
		quals[unq(m[1])] = true
	}
	ql := []string{}
	for q := range quals {
		ql = append(ql, q)
	}
	sort.Strings(ql)
	base := func(kind string) ev {
		return ev{"ev": kind, "c": cid, "quals": ql, "mentions": strings.Contains(flat0, marker), "sql": flat0}
	}
	switch {
	case reSchemaSt.MatchString(flat):
		return []ev{base("schemastmt")}
	case reCreate.MatchString(flat):
		_, t := splitQ(reCreate.FindStringSubmatch(flat)[1])
		e := base("create")
		e["t"] = t
		inl := []fk5{}
		for _, m := range reInline.FindAllStringSubmatch(flat, -1) {
			_, p := splitQ(m[3])
			inl = append(inl, fk5{t, p, unq(m[1]), strings.TrimSpace(m[4]), identList(m[2])})
		}
		e["inline"] = inl
		return []ev{e}
	case reDropT.MatchString(flat):
		_, t := splitQ(reDropT.FindStringSubmatch(flat)[1])
		e := base("drop")
		e["t"] = t
		return []ev{e}
	case reAlter.MatchString(flat):
		m := reAlter.FindStringSubmatch(flat)
		_, t := splitQ(m[1])
		var es []ev
		// clauses are enumerated: one ALTER may carry several ADD CONSTRAINT / DROP clauses
		type hit struct {
			pos int
			e   ev
		}
		var hits []hit
		for _, ix := range reAddFK.FindAllStringSubmatchIndex(m[2], -1) {
			e := base("addfk")
			_, p := splitQ(m[2][ix[6]:ix[7]])
			e["t"], e["p"], e["n"], e["d"] = t, p, unq(m[2][ix[2]:ix[3]]), strings.TrimSpace(m[2][ix[8]:ix[9]])
			e["cols"] = identList(m[2][ix[4]:ix[5]])
			hits = append(hits, hit{ix[0], e})
		}
		for _, ix := range reAddChk.FindAllStringSubmatchIndex(m[2], -1) {
			e := base("addcheck")
			name := ""
			if ix[2] >= 0 {
				name = unq(m[2][ix[2]:ix[3]])
			}
			if name == "" {
				name = "unnamed"
			}
			e["t"], e["n"] = t, name
			hits = append(hits, hit{ix[0], e})
		}
		for _, ix := range reDropChk.FindAllStringSubmatchIndex(m[2], -1) {
			e := base("dropcheck")
			e["t"], e["n"] = t, unq(m[2][ix[2]:ix[3]])
			hits = append(hits, hit{ix[0], e})
		}
		for _, ix := range reAddIdx.FindAllStringSubmatchIndex(m[2], -1) {
			e := base("addindex")
			e["t"], e["k"] = t, nparts(m[2][ix[4]:ix[5]])
			hits = append(hits, hit{ix[0], e})
		}
		for _, ix := range reDropFK.FindAllStringSubmatchIndex(m[2], -1) {
			if strings.HasPrefix(unq(m[2][ix[2]:ix[3]]), "ck_") {
				continue // a check constraint (named ck_* by the harness), handled above
			}
			e := base("dropfk")
			e["t"], e["n"] = t, unq(m[2][ix[2]:ix[3]])
			hits = append(hits, hit{ix[0], e})
		}
		for _, ix := range reDropCol.FindAllStringSubmatchIndex(m[2], -1) {
			e := base("dropcol")
			e["t"], e["col"] = t, unq(m[2][ix[2]:ix[3]])
			hits = append(hits, hit{ix[0], e})
		}
		// what a statement drops goes first, whatever the order of its clauses (both engines)
		rank := func(h hit) int {
			switch h.e["ev"] {
			case "dropfk", "dropcheck":
				return 0
			case "dropcol":
				return 1
			}
			return 2
		}
		sort.Slice(hits, func(i, j int) bool {
			if ri, rj := rank(hits[i]), rank(hits[j]); ri != rj {
				return ri < rj
			}
			return hits[i].pos < hits[j].pos
		})
		for _, h := range hits {
			es = append(es, h.e)
		}
		if len(es) == 0 {
			e := base("other")
			e["t"] = t
			es = append(es, e)
		}
		return es
	}
	if m := reCreateIdx.FindStringSubmatch(flat); m != nil {
		e := base("addindex")
		_, e["t"] = splitQ(m[1])
		e["k"] = nparts(m[2])
		return []ev{e}
	}
	e := base("other")
	// statements on other objects (indexes, comments, types): attach to a table when one is named after ON
	e["t"] = ""
	if m := regexp.MustCompile(` ON ((?:` + reIdent + `\.)?` + reIdent + `)`).FindStringSubmatch(flat); m != nil {
		_, e["t"] = splitQ(m[1])
	}
	return []ev{e}
}

func planner(d string) migrate.PlanApplier {
	if d == "mysql" {
		return mysql.DefaultPlan
	}
	return postgres.DefaultPlan
}

func runScenario(dialect string, n int, edges [][2]int, roles, req string, updown bool) {
	runScenarioD(dialect, n, edges, roles, req, updown, false)
	if !updown && req == "realm" && strings.Contains(roles, "k") {
		runScenarioD(dialect, n, edges, roles, req, false, true)
	}
}

// dropcol: the kept tables drop the columns of the foreign keys they drop as well (scenario direction "up-dropcol")
func runScenarioD(dialect string, n int, edges [][2]int, roles, req string, updown, dropcol bool) {
	sc := &scenario{ID: len(cases) + 1, Dialect: dialect, N: n, Graph: edges, Roles: roles, Req: req, Dir: "up"}
	if updown {
		sc.Dir = "updown"
	}
	w := build(n, edges, dialect)
	p := scenarioChanges(w, n, edges, roles, dropcol)
	if dropcol {
		if p.dropped == 0 {
			return
		}
		sc.Dir = "up-dropcol"
	}
	cases = append(cases, sc)
	sc.First = line + 1
	want := p.want
	if updown {
		want = p.start
	}
	emit(ev{"ev": "reset", "c": sc.ID, "req": req, "schema": marker, "dialect": dialect,
		"start": map[string]any{"tables": p.start.tables, "fks": p.start.fks},
		"want":  map[string]any{"tables": want.tables, "fks": want.fks}})
	var opts []migrate.PlanOption
	switch req {
	case "realm":
	case "none":
		// schema-scoped connection: the CLI passes an empty qualifier (cmdapi.planOptions)
		opts = append(opts, func(o *migrate.PlanOptions) { o.SchemaQualifier = new(string) })
	default:
		q := req
		opts = append(opts, func(o *migrate.PlanOptions) { o.SchemaQualifier = &q })
	}
	type res struct {
		pl  *migrate.Plan
		err error
	}
	ch := make(chan res, 1)
	go func() {
		defer func() {
			if r := recover(); r != nil {
				ch <- res{nil, fmt.Errorf("panic: %v", r)}
			}
		}()
		pl, err := planner(dialect).PlanChanges(context.Background(), "plan", p.changes, opts...)
		ch <- res{pl, err}
	}()
	var r res
	select {
	case r = <-ch:
	case <-time.After(5 * time.Second):
		r = res{nil, fmt.Errorf("timeout: planner did not return within 5s")}
	}
	if r.err != nil {
		sc.Err = r.err.Error()
		emit(ev{"ev": "reject", "c": sc.ID, "owed": false, "err": sc.Err})
		sc.Last = line
		return
	}
	for _, c := range r.pl.Changes {
		sc.Stmts = append(sc.Stmts, c.Cmd)
		for _, e := range events(sc.ID, c.Cmd) {
			emit(e)
		}
	}
	if updown {
		if !r.pl.Reversible {
			// nothing to replay: mark the scenario as not applicable by restoring the expectation
			emit(ev{"ev": "reject", "c": sc.ID, "owed": true, "err": "plan not reversible"})
			sc.Last = line
			return
		}
		for i := len(r.pl.Changes) - 1; i >= 0; i-- {
			rs, err := r.pl.Changes[i].ReverseStmts()
			if err != nil {
				emit(ev{"ev": "reject", "c": sc.ID, "owed": false, "err": "reverse: " + err.Error()})
				sc.Last = line
				return
			}
			for _, s := range rs {
				sc.Stmts = append(sc.Stmts, "-- down: "+s)
				for _, e := range events(sc.ID, s) {
					emit(e)
				}
			}
		}
	}
	emit(ev{"ev": "end", "c": sc.ID, "mustreject": false, "checksmatter": false, "wantchecks": [][2]string{}})
	sc.Last = line
	if !updown && !dropcol && req == "realm" {
		// the same change objects planned once more (the CLI plans for the summary and again when applying): planning must not have
		// altered its input, the second plan has to satisfy the catalogue as well
		sc2 := &scenario{ID: len(cases) + 1, Dialect: dialect, N: n, Graph: edges, Roles: roles, Req: req, Dir: "replan"}
		cases = append(cases, sc2)
		sc2.First = line + 1
		emit(ev{"ev": "reset", "c": sc2.ID, "req": req, "schema": marker, "dialect": dialect,
			"start": map[string]any{"tables": p.start.tables, "fks": p.start.fks},
			"want":  map[string]any{"tables": want.tables, "fks": want.fks}})
		pl2, err := planner(dialect).PlanChanges(context.Background(), "plan", p.changes, opts...)
		if err != nil {
			sc2.Err = err.Error()
			emit(ev{"ev": "reject", "c": sc2.ID, "owed": false, "err": sc2.Err})
			sc2.Last = line
			return
		}
		for _, c := range pl2.Changes {
			sc2.Stmts = append(sc2.Stmts, c.Cmd)
			for _, e := range events(sc2.ID, c.Cmd) {
				emit(e)
			}
		}
		emit(ev{"ev": "end", "c": sc2.ID, "mustreject": false, "checksmatter": false, "wantchecks": [][2]string{}})
		sc2.Last = line
	}
}

func main() {
	var (
		n      = flag.Int("n", 3, "tables")
		roles  = flag.String("roles", "all", "all | createdrop")
		sample = flag.Float64("sample", 1, "")
		seed   = flag.Int64("seed", 1, "")
		outp   = flag.String("out", "trace.ndjson", "")
		casesp = flag.String("cases", "cases.json", "")
		reqs   = flag.String("req", "realm", "comma list of: realm,none,q1")
		updown = flag.Bool("updown", false, "also replay the reverse statements (C17 catalogue level)")
		random = flag.Int("random", 0, "additionally N random graphs over up to 8 tables")
		qual   = flag.Bool("qual", false, "C16 scenarios only")
		chks   = flag.Bool("checks", false, "C17: up/down of CHECK constraint changes at catalogue level")
		fkmod  = flag.Bool("fkmod", false, "C04/C17: a foreign key modified in place (referenced table, actions), up and up/down")
		colmod = flag.Bool("colmod", false, "C17: a column modified in place, events for ColCatalogTrace.tla")
	)
	flag.Parse()
	f, err := os.Create(*outp)
	if err != nil {
		panic(err)
	}
	out = bufio.NewWriterSize(f, 1<<20)
	if *chks || *fkmod || *colmod {
		if *colmod {
			runColMod()
			runIdxMod()
			runIdxCol()
		} else if *fkmod {
			runFKMod()
		} else {
			runChecks()
		}
		out.Flush()
		f.Close()
		b, _ := json.Marshal(cases)
		os.WriteFile(*casesp, b, 0o644)
		fmt.Printf("{\"cases\": %d, \"events\": %d}\n", len(cases), line)
		return
	}
	if *qual {
		runQual()
		out.Flush()
		f.Close()
		b, _ := json.Marshal(cases)
		os.WriteFile(*casesp, b, 0o644)
		fmt.Printf("{\"cases\": %d, \"events\": %d}\n", len(cases), line)
		return
	}
	rng := rand.New(rand.NewSource(*seed))
	var allEdges [][2]int
	for i := 0; i < *n; i++ {
		for j := 0; j < *n; j++ {
			allEdges = append(allEdges, [2]int{i, j})
		}
	}
	var roleSets []string
	if *roles == "createdrop" {
		roleSets = []string{strings.Repeat("c", *n), strings.Repeat("d", *n)}
	} else {
		var rec func(cur string)
		rec = func(cur string) {
			if len(cur) == *n {
				roleSets = append(roleSets, cur)
				return
			}
			for _, r := range "cdk" {
				rec(cur + string(r))
			}
		}
		rec("")
	}
	for mask := 0; mask < 1<<len(allEdges); mask++ {
		if *sample < 1 && rng.Float64() >= *sample {
			continue
		}
		var edges [][2]int
		for b, e := range allEdges {
			if mask&(1<<b) != 0 {
				edges = append(edges, e)
			}
		}
		for _, rs := range roleSets {
			for _, d := range []string{"mysql", "postgres"} {
				for _, req := range strings.Split(*reqs, ",") {
					runScenario(d, *n, edges, rs, req, false)
					if *updown {
						runScenario(d, *n, edges, rs, req, true)
					}
				}
			}
		}
	}
	for i := 0; i < *random; i++ {
		nn := 5 + rng.Intn(4)
		var edges [][2]int
		for a := 0; a < nn; a++ {
			for b := 0; b < nn; b++ {
				if rng.Float64() < 0.22 {
					edges = append(edges, [2]int{a, b})
				}
			}
		}
		rs := make([]byte, nn)
		for k := range rs {
			rs[k] = "cdk"[rng.Intn(3)]
		}
		for _, d := range []string{"mysql", "postgres"} {
			runScenario(d, nn, edges, string(rs), "realm", false)
			runScenario(d, nn, edges, strings.Repeat("c", nn), "realm", false)
			runScenario(d, nn, edges, strings.Repeat("d", nn), "realm", false)
		}
	}
	out.Flush()
	f.Close()
	b, _ := json.Marshal(cases)
	os.WriteFile(*casesp, b, 0o644)
	fmt.Printf("{\"cases\": %d, \"events\": %d}\n", len(cases), line)
}
