package main

import (
	"context"
	"encoding/json"
	"fmt"
	"regexp"
	"sort"
	"strings"

	"ariga.io/atlas/sql/mysql"
	"ariga.io/atlas/sql/postgres"
	"ariga.io/atlas/sql/schema"
)

// Column-level catalogue scenarios for ColCatalogTrace.tla (C17 at catalogue level, MySQL / PostgreSQL, no engine): one column of a
// table goes from one definition (type, nullability, default, generation expression) to another, alone or next to an added / a dropped
// column. The changes come from the dialect's own differ, the plan from its planner; the column clauses of the planned statements (and,
// when the plan is reported reversible, of the reverse statements in reverse order) are interpreted by the specification, which has to
// arrive at the wanted columns: the desired ones after up, the original ones after up and down.

type coldef struct {
	typ     int // index into the dialect's types
	null    bool
	dflt    string
	gen     string
	comment string
}

type col5 [6]string // name, type, notnull, default, generated, comment

// idx3 is an index of the model: name, unique ("t" / "f"), key parts as written (lower case, no quotes, "c,x desc"); it travels as
// [name, unique, [[column, "asc" | "desc"], ...]]
type idx3 struct{ Name, Uniq, Parts, Kind string } // Kind: "c" = owned by a UNIQUE constraint (PostgreSQL), otherwise "i"

func (i idx3) MarshalJSON() ([]byte, error) {
	parts := [][2]string{}
	for _, p := range strings.Split(i.Parts, ",") {
		if f := strings.Fields(p); len(f) == 1 {
			parts = append(parts, [2]string{f[0], "asc"})
		} else if len(f) > 1 {
			parts = append(parts, [2]string{f[0], f[1]})
		}
	}
	kind := i.Kind
	if kind == "" {
		kind = "i"
	}
	return json.Marshal([]any{i.Name, i.Uniq, parts, kind})
}

var colTypes = map[string][]schema.Type{
	"mysql": {
		&schema.IntegerType{T: "int"}, &schema.IntegerType{T: "bigint"}, &schema.StringType{T: "varchar", Size: 20},
	},
	"postgres": {
		&schema.IntegerType{T: "integer"}, &schema.IntegerType{T: "bigint"}, &schema.StringType{T: "character varying", Size: 20},
	},
}

func formatType(dialect string, t schema.Type) string {
	var (
		s   string
		err error
	)
	if dialect == "mysql" {
		s, err = mysql.FormatType(t)
	} else {
		s, err = postgres.FormatType(t)
	}
	if err != nil {
		panic(err)
	}
	return strings.ToLower(s)
}

func normExpr(x string) string {
	x = strings.NewReplacer(" ", "", "`", "", `"`, "").Replace(x)
	for strings.HasPrefix(x, "(") && strings.HasSuffix(x, ")") {
		x = x[1 : len(x)-1]
	}
	return x
}

func normDefault(x string) string { return strings.Trim(x, `'"`) }

func mkColumn(dialect, name string, d coldef) (*schema.Column, col5) {
	t := colTypes[dialect][d.typ]
	c := &schema.Column{Name: name, Type: &schema.ColumnType{Type: t, Raw: formatType(dialect, t), Null: d.null}}
	k := col5{name, formatType(dialect, t), "t", "", "", d.comment}
	if d.comment != "" {
		c.Attrs = append(c.Attrs, &schema.Comment{Text: d.comment})
	}
	if d.null {
		k[2] = "f"
	}
	if d.dflt != "" {
		c.Default = &schema.RawExpr{X: d.dflt}
		k[3] = normDefault(d.dflt)
	}
	if d.gen != "" {
		c.Attrs = append(c.Attrs, &schema.GeneratedExpr{Expr: d.gen, Type: "STORED"})
		k[4] = normExpr(d.gen) + "/STORED"
	}
	return c, k
}

var (
	reGenClause = regexp.MustCompile(`(?:GENERATED ALWAYS )?AS (\(.*\)) (STORED|VIRTUAL)`)
	reDfltTok   = regexp.MustCompile(`\bDEFAULT (\S+)`)
	reCommentIn = regexp.MustCompile(`\bCOMMENT ("[^"]*"|'[^']*')`)
	reCommentOn = regexp.MustCompile(`^COMMENT ON COLUMN (?:` + reIdent + `\.)?` + reIdent + `\.(` + reIdent + `) IS '([^']*)'$`)
	reColClause = regexp.MustCompile(`^(ADD COLUMN|DROP COLUMN|MODIFY COLUMN|ALTER COLUMN) (` + reIdent + `) ?(.*)$`)
	reIdxAdd    = regexp.MustCompile(`^ADD (UNIQUE )?(?:INDEX|KEY) (` + reIdent + `) ?\((.*)\)$`)
	reConstAdd  = regexp.MustCompile(`^ADD CONSTRAINT (` + reIdent + `) UNIQUE ?\((.*)\)$`)
	reConstDrop = regexp.MustCompile(`^DROP CONSTRAINT (` + reIdent + `)$`)
	reIdxDrop   = regexp.MustCompile(`^DROP INDEX (?:IF EXISTS )?(?:` + reIdent + `\.)?(` + reIdent + `)$`)
	reIdxCreate = regexp.MustCompile(`^CREATE (UNIQUE )?INDEX (?:IF NOT EXISTS )?(` + reIdent + `) ON (?:` + reIdent + `\.)?` + reIdent + ` ?\((.*)\)$`)
)

func normParts(p string) string {
	p = strings.ToLower(strings.NewReplacer("`", "", `"`, "").Replace(p))
	var out []string
	for _, x := range strings.Split(p, ",") {
		out = append(out, strings.Join(strings.Fields(x), " "))
	}
	return strings.Join(out, ",")
}

func uniq(s string) string {
	if s != "" {
		return "t"
	}
	return "f"
}

// parseDef reads "<type> [AS (x) STORED] [NOT NULL | NULL] [DEFAULT v] [GENERATED ALWAYS AS (x) STORED]" into a column tuple.
func parseDef(name, def string) (col5, bool) {
	k := col5{name, "", "f", "", "", ""}
	if m := reCommentIn.FindStringSubmatch(def); m != nil {
		k[5] = m[1][1 : len(m[1])-1]
		def = strings.Replace(def, m[0], "", 1)
	}
	if m := reGenClause.FindStringSubmatch(def); m != nil {
		k[4] = normExpr(m[1]) + "/" + m[2]
		def = strings.Replace(def, m[0], "", 1)
	}
	if m := reDfltTok.FindStringSubmatch(def); m != nil {
		k[3] = normDefault(m[1])
		def = strings.Replace(def, m[0], "", 1)
	}
	switch {
	case strings.Contains(def, "NOT NULL"):
		k[2] = "t"
		def = strings.Replace(def, "NOT NULL", "", 1)
	case regexp.MustCompile(`\bNULL\b`).MatchString(def):
		def = regexp.MustCompile(`\bNULL\b`).ReplaceAllString(def, "")
	}
	k[1] = strings.ToLower(strings.Join(strings.Fields(def), " "))
	// whatever is left must be a plain type name
	return k, regexp.MustCompile(`^[a-z ]+(\(\d+\))?$`).MatchString(k[1])
}

// splitClauses cuts the body of an ALTER TABLE at its top-level commas.
func splitClauses(body string) []string {
	var (
		out   []string
		depth int
		quote rune
		start int
	)
	for i, r := range body {
		switch {
		case quote != 0:
			if r == quote {
				quote = 0
			}
		case r == '\'' || r == '"' || r == '`':
			quote = r
		case r == '(':
			depth++
		case r == ')':
			depth--
		case r == ',' && depth == 0:
			out = append(out, strings.TrimSpace(body[start:i]))
			start = i + 1
		}
	}
	return append(out, strings.TrimSpace(body[start:]))
}

// colEvents interprets one statement: the column clauses of an ALTER TABLE on table t, anything else is reported as unknown.
func colEvents(cid int, cmd string) []ev {
	flat := strings.Join(strings.Fields(cmd), " ")
	unknown := func(what string) ev {
		return ev{"ev": "clause", "c": cid, "op": "unknown", "col": col5{}, "sql": what}
	}
	if m := reCommentOn.FindStringSubmatch(flat); m != nil {
		return []ev{{"ev": "clause", "c": cid, "op": "comment", "col": col5{unq(m[1]), "", "", "", "", m[2]}, "sql": flat}, {"ev": "stmtend", "c": cid}}
	}
	if m := reIdxCreate.FindStringSubmatch(flat); m != nil {
		return []ev{{"ev": "clause", "c": cid, "op": "addidx", "idx": idx3{unq(m[2]), uniq(m[1]), normParts(m[3]), "i"}, "sql": flat}, {"ev": "stmtend", "c": cid}}
	}
	if m := reIdxDrop.FindStringSubmatch(flat); m != nil {
		return []ev{{"ev": "clause", "c": cid, "op": "dropidx", "idx": idx3{Name: unq(m[1])}, "sql": flat}, {"ev": "stmtend", "c": cid}}
	}
	m := reAlter.FindStringSubmatch(flat)
	if m == nil {
		return []ev{unknown(flat), {"ev": "stmtend", "c": cid}}
	}
	var es []ev
	for _, cl := range splitClauses(m[2]) {
		if im := reIdxAdd.FindStringSubmatch(cl); im != nil {
			es = append(es, ev{"ev": "clause", "c": cid, "op": "addidx", "idx": idx3{unq(im[2]), uniq(im[1]), normParts(im[3]), "i"}, "sql": cl})
			continue
		}
		if im := reIdxDrop.FindStringSubmatch(cl); im != nil {
			es = append(es, ev{"ev": "clause", "c": cid, "op": "dropidx", "idx": idx3{Name: unq(im[1])}, "sql": cl})
			continue
		}
		if im := reConstAdd.FindStringSubmatch(cl); im != nil {
			es = append(es, ev{"ev": "clause", "c": cid, "op": "addconst", "idx": idx3{unq(im[1]), "t", normParts(im[2]), "c"}, "sql": cl})
			continue
		}
		if im := reConstDrop.FindStringSubmatch(cl); im != nil {
			es = append(es, ev{"ev": "clause", "c": cid, "op": "dropconst", "idx": idx3{Name: unq(im[1])}, "sql": cl})
			continue
		}
		cm := reColClause.FindStringSubmatch(cl)
		if cm == nil {
			es = append(es, unknown(cl))
			continue
		}
		name, rest := unq(cm[2]), cm[3]
		e := ev{"ev": "clause", "c": cid, "sql": cl}
		switch cm[1] {
		case "ADD COLUMN", "MODIFY COLUMN":
			k, ok := parseDef(name, rest)
			if !ok {
				es = append(es, unknown(cl))
				continue
			}
			e["op"], e["col"] = map[string]string{"ADD COLUMN": "add", "MODIFY COLUMN": "redefine"}[cm[1]], k
		case "DROP COLUMN":
			e["op"], e["col"] = "drop", col5{name}
		default:
			switch {
			case strings.HasPrefix(rest, "TYPE "):
				t := strings.TrimPrefix(rest, "TYPE ")
				if i := strings.Index(t, " USING "); i >= 0 {
					t = t[:i]
				}
				e["op"], e["col"] = "type", col5{name, strings.ToLower(t)}
			case rest == "SET NOT NULL":
				e["op"], e["col"] = "setnn", col5{name}
			case rest == "DROP NOT NULL":
				e["op"], e["col"] = "dropnn", col5{name}
			case rest == "DROP DEFAULT":
				e["op"], e["col"] = "dropdflt", col5{name}
			case rest == "DROP EXPRESSION":
				e["op"], e["col"] = "dropexpr", col5{name}
			case strings.HasPrefix(rest, "SET DEFAULT ") && !strings.Contains(strings.TrimPrefix(rest, "SET DEFAULT "), " "):
				e["op"], e["col"] = "setdflt", col5{name, "", "", normDefault(strings.TrimPrefix(rest, "SET DEFAULT "))}
			default:
				es = append(es, unknown(cl))
				continue
			}
		}
		es = append(es, e)
	}
	// Neither engine runs the clauses of one ALTER TABLE in the order they are written: what is dropped goes first, indexes are
	// built last (MySQL builds the new definition from the drop, column and key lists; PostgreSQL works in passes).
	rank := func(e ev) int {
		switch e["op"] {
		case "drop", "dropidx", "dropconst":
			return 0
		case "addidx", "addconst":
			return 2
		}
		return 1
	}
	sort.SliceStable(es, func(i, j int) bool { return rank(es[i]) < rank(es[j]) })
	return append(es, ev{"ev": "stmtend", "c": cid})
}

func differ(dialect string) schema.Differ {
	if dialect == "mysql" {
		return mysql.DefaultDiff
	}
	return postgres.DefaultDiff
}

// Index-level scenarios: table t(id, c, x) whose indexes go from one set of definitions to another (index i modified in place over
// uniqueness, key columns, their order and direction; index j added, dropped or kept next to it).
func runIdxMod() {
	type idef struct {
		unique bool
		parts  string // "c", "x", "c,x", "x,c", "c desc", "c,x desc"
		constr bool   // PostgreSQL: the index belongs to a UNIQUE constraint of the same name
	}
	var defs []*idef
	defs = append(defs, nil) // index absent
	for _, u := range []bool{false, true} {
		for _, p := range []string{"c", "x", "c,x", "x,c", "c desc", "c,x desc"} {
			defs = append(defs, &idef{u, p, false})
		}
	}
	// PostgreSQL only: unique constraints (no descending parts)
	ndefs := len(defs)
	for _, p := range []string{"c", "x", "c,x", "x,c"} {
		defs = append(defs, &idef{true, p, true})
	}
	build := func(dialect string, i, j *idef) (*schema.Table, []col5, []idx3) {
		s := schema.New(marker)
		t := schema.NewTable("t").SetSchema(s)
		idT := colTypes[dialect][0]
		var ks []col5
		for _, n := range []string{"id", "c", "x"} {
			t.AddColumns(&schema.Column{Name: n, Type: &schema.ColumnType{Type: idT, Raw: formatType(dialect, idT)}})
			ks = append(ks, col5{n, formatType(dialect, idT), "t", "", "", ""})
		}
		t.SetPrimaryKey(schema.NewPrimaryKey(t.Columns[0]))
		var is []idx3
		for name, d := range map[string]*idef{"i": i, "j": j} {
			if d == nil {
				continue
			}
			idx := schema.NewIndex(name).SetUnique(d.unique)
			for _, p := range strings.Split(d.parts, ",") {
				f := strings.Fields(p)
				c, _ := t.Column(f[0])
				part := &schema.IndexPart{C: c, Desc: len(f) > 1}
				idx.AddParts(part)
			}
			kind := "i"
			if d.constr {
				idx.AddAttrs(postgres.UniqueConstraint(name))
				kind = "c"
			}
			t.AddIndexes(idx)
			is = append(is, idx3{name, map[bool]string{true: "t", false: "f"}[d.unique], d.parts, kind})
		}
		sort.Slice(t.Indexes, func(a, b int) bool { return t.Indexes[a].Name < t.Indexes[b].Name })
		sort.Slice(is, func(a, b int) bool { return is[a].Name < is[b].Name })
		return t, ks, is
	}
	jdefs := []*idef{nil, {false, "x", false}, {true, "x,c", false}}
	for _, dialect := range []string{"mysql", "postgres"} {
		for a, from := range defs {
			for b, to := range defs {
				for ja, jfrom := range jdefs {
					for jb, jto := range jdefs {
						if a == b && ja == jb {
							continue
						}
						if dialect == "mysql" && (a >= ndefs || b >= ndefs) {
							continue
						}
						// the community differ does not tell a unique index from a unique constraint with the same columns: nothing to plan
						if from != nil && to != nil && from.constr != to.constr && from.parts == to.parts && from.unique == to.unique {
							continue
						}
						if (ja != 0 || jb != 0) && (a+b+ja+2*jb)%4 != 0 {
							continue // the second index on a quarter of the pairs
						}
						for _, updown := range []bool{false, true} {
							fromT, cols, startI := build(dialect, from, jfrom)
							toT, _, endI := build(dialect, to, jto)
							dir, want := "idxmod-up", endI
							if updown {
								dir, want = "idxmod-updown", startI
							}
							sc := &scenario{ID: len(cases) + 1, Dialect: dialect, N: 1, Req: "realm", Dir: dir, Roles: fmt.Sprintf("%v -> %v", startI, endI)}
							cases = append(cases, sc)
							sc.First = line + 1
							if startI == nil {
								startI = []idx3{}
							}
							if want == nil {
								want = []idx3{}
							}
							emit(ev{"ev": "reset", "c": sc.ID, "dialect": dialect, "start": cols, "want": cols, "startidx": startI, "wantidx": want})
							planAndReplay(sc, dialect, fromT, toT, updown, false)
						}
					}
				}
			}
		}
	}
}

// Columns dropped together with indexes that use them: table t(id, a, b, c) with index i over some of a, b, c; the desired table has
// lost column b (or b and a) and has either no index i, the index MySQL would leave behind (the old parts without the dropped
// columns), or another one. What the engines do by themselves when a column goes away is part of ColCatalog.tla.
func runIdxCol() {
	build := func(dialect string, cols []string, unique bool, parts string) (*schema.Table, []col5, []idx3) {
		s := schema.New(marker)
		t := schema.NewTable("t").SetSchema(s)
		idT := colTypes[dialect][0]
		var ks []col5
		for _, n := range cols {
			t.AddColumns(&schema.Column{Name: n, Type: &schema.ColumnType{Type: idT, Raw: formatType(dialect, idT)}})
			ks = append(ks, col5{n, formatType(dialect, idT), "t", "", "", ""})
		}
		t.SetPrimaryKey(schema.NewPrimaryKey(t.Columns[0]))
		is := []idx3{}
		if parts != "" {
			idx := schema.NewIndex("i").SetUnique(unique)
			for _, p := range strings.Split(parts, ",") {
				f := strings.Fields(p)
				c, _ := t.Column(f[0])
				idx.AddParts(&schema.IndexPart{C: c, Desc: len(f) > 1})
			}
			t.AddIndexes(idx)
			is = append(is, idx3{"i", map[bool]string{true: "t", false: "f"}[unique], parts, "i"})
		}
		return t, ks, is
	}
	without := func(parts string, gone map[string]bool) string {
		var out []string
		for _, p := range strings.Split(parts, ",") {
			if !gone[strings.Fields(p)[0]] {
				out = append(out, p)
			}
		}
		return strings.Join(out, ",")
	}
	for _, dialect := range []string{"mysql", "postgres"} {
		for _, unique := range []bool{false, true} {
			for _, parts := range []string{"b", "a,b", "b,a", "a,b,c", "b desc,c", "a,c"} {
				for _, gone := range [][]string{{"b"}, {"a", "b"}} {
					g := map[string]bool{}
					keep := []string{"id"}
					for _, n := range gone {
						g[n] = true
					}
					for _, n := range []string{"a", "b", "c"} {
						if !g[n] {
							keep = append(keep, n)
						}
					}
					seen := map[string]bool{}
					for _, after := range []string{"", without(parts, g), "c"} {
						if seen[after] {
							continue
						}
						seen[after] = true
						for _, updown := range []bool{false, true} {
							fromT, startC, startI := build(dialect, []string{"id", "a", "b", "c"}, unique, parts)
							toT, endC, endI := build(dialect, keep, unique, after)
							dir, wantC, wantI := "idxcol-up", endC, endI
							if updown {
								dir, wantC, wantI = "idxcol-updown", startC, startI
							}
							uses := false
							for _, p := range strings.Split(parts, ",") {
								uses = uses || g[strings.Fields(p)[0]]
							}
							sc := &scenario{ID: len(cases) + 1, Dialect: dialect, N: 1, Req: "realm", Dir: dir,
								Roles: fmt.Sprintf("drop %v: %v -> %v", gone, startI, endI),
								Extra: map[string]any{"index_uses_dropped_column": uses, "index_keeps_a_column": without(parts, g) != "",
									"desired_index": map[bool]string{true: "none", false: map[bool]string{true: "what is left of it", false: "another"}[after == without(parts, g)]}[after == ""]}}
							cases = append(cases, sc)
							sc.First = line + 1
							emit(ev{"ev": "reset", "c": sc.ID, "dialect": dialect, "start": startC, "want": wantC, "startidx": startI, "wantidx": wantI})
							planAndReplay(sc, dialect, fromT, toT, updown, false)
						}
					}
				}
			}
		}
	}
}

func runColMod() {
	var defs []coldef
	for t := 0; t < 3; t++ {
		for _, null := range []bool{false, true} {
			for _, dg := range [][2]string{{"", ""}, {"1", ""}, {"2", ""}, {"", "id * 2"}} {
				defs = append(defs, coldef{t, null, dg[0], dg[1], ""})
			}
		}
	}
	comments := [][2]string{{"", ""}, {"", "note a"}, {"note a", "note b"}, {"note a", ""}, {"note a", "note a"}}
	for _, dialect := range []string{"mysql", "postgres"} {
		for i, from := range defs {
			for j, to := range defs {
				// the comment changes on a third of the pairs (and alone, with nothing else changing)
				cm := comments[0]
				if (i+j)%3 == 0 {
					cm = comments[1+(i+2*j)%4]
				}
				from.comment, to.comment = cm[0], cm[1]
				if from == to {
					continue
				}
				for v, with := range []string{"alone", "add-column", "drop-column", "drop-earlier-column"} {
					if v > 0 && (i+j)%3 != (v-1)%3 && (i+2*j)%5 != 0 {
						continue // the companions on part of the pairs
					}
					for _, updown := range []bool{false, true} {
						colmodScenario(dialect, from, to, with, updown)
					}
				}
			}
		}
	}
}

func colOf(ks []col5, name string) []string {
	for _, k := range ks {
		if k[0] == name {
			return k[1:]
		}
	}
	return nil
}

func colmodScenario(dialect string, from, to coldef, with string, updown bool) {
	s := schema.New(marker)
	idT := colTypes[dialect][0]
	mkTable := func(d coldef, extra string) (*schema.Table, []col5) {
		t := schema.NewTable("t").SetSchema(s)
		id := &schema.Column{Name: "id", Type: &schema.ColumnType{Type: idT, Raw: formatType(dialect, idT)}}
		t.AddColumns(id)
		t.SetPrimaryKey(schema.NewPrimaryKey(id))
		ks := []col5{{"id", formatType(dialect, idT), "t", "", "", ""}}
		if extra == "y-first" {
			// the dropped column is declared before the modified one: its drop comes first in the change list
			c, k := mkColumn(dialect, "y", coldef{0, false, "7", "", "old"})
			t.AddColumns(c)
			ks = append(ks, k)
		}
		c, k := mkColumn(dialect, "c", d)
		t.AddColumns(c)
		ks = append(ks, k)
		switch extra {
		case "x":
			c, k := mkColumn(dialect, "x", coldef{1, true, "", "", "added"})
			t.AddColumns(c)
			ks = append(ks, k)
		case "y":
			c, k := mkColumn(dialect, "y", coldef{0, false, "7", "", "old"})
			t.AddColumns(c)
			ks = append(ks, k)
		}
		return t, ks
	}
	fromX, toX := "", ""
	switch with {
	case "add-column":
		toX = "x"
	case "drop-column":
		fromX = "y"
	case "drop-earlier-column":
		fromX = "y-first"
	}
	fromT, startK := mkTable(from, fromX)
	toT, endK := mkTable(to, toX)
	dir := "colmod-up"
	want := endK
	if updown {
		dir, want = "colmod-updown", startK
	}
	sc := &scenario{ID: len(cases) + 1, Dialect: dialect, N: 1, Req: "realm", Dir: dir, Roles: fmt.Sprintf("%s: %v -> %v", with, colOf(startK, "c"), colOf(endK, "c"))}
	cases = append(cases, sc)
	sc.First = line + 1
	emit(ev{"ev": "reset", "c": sc.ID, "dialect": dialect, "start": startK, "want": want, "startidx": []idx3{}, "wantidx": []idx3{}})
	planAndReplay(sc, dialect, fromT, toT, updown, from.gen != to.gen)
}

// planAndReplay: differ -> planner -> events of the statements (and of the reverse statements in reverse order).
// refusing to turn a column into a generated one (or to change an expression) is the planner's right: nothing is planned
func planAndReplay(sc *scenario, dialect string, fromT, toT *schema.Table, updown, genInvolved bool) {
	reject := func(err error) {
		sc.Err = err.Error()
		emit(ev{"ev": "reject", "c": sc.ID, "owed": genInvolved, "err": sc.Err})
		sc.Last = line
	}
	changes, err := differ(dialect).TableDiff(fromT, toT)
	if err != nil {
		reject(err)
		return
	}
	pl, err := planner(dialect).PlanChanges(context.Background(), "plan", []schema.Change{&schema.ModifyTable{T: toT, Changes: changes}})
	if err != nil {
		reject(err)
		return
	}
	for _, c := range pl.Changes {
		sc.Stmts = append(sc.Stmts, c.Cmd)
		for _, e := range colEvents(sc.ID, c.Cmd) {
			emit(e)
		}
	}
	if updown {
		if !pl.Reversible {
			emit(ev{"ev": "reject", "c": sc.ID, "owed": true, "err": "plan not reversible"})
			sc.Last = line
			return
		}
		for i := len(pl.Changes) - 1; i >= 0; i-- {
			rs, err := pl.Changes[i].ReverseStmts()
			if err != nil {
				emit(ev{"ev": "reject", "c": sc.ID, "owed": false, "err": "reverse: " + err.Error()})
				sc.Last = line
				return
			}
			for _, st := range rs {
				sc.Stmts = append(sc.Stmts, "-- down: "+st)
				for _, e := range colEvents(sc.ID, st) {
					emit(e)
				}
			}
		}
	}
	emit(ev{"ev": "end", "c": sc.ID})
	sc.Last = line
}
