// roundtrip: plan -> file -> statements (property C07) and down files / Reversible flag (part of C17).
//
//	roundtrip <contents.ndjson> <out.ndjson> <maxcases>
//
// contents.ndjson: hostile contents exported by TLC from LexerMC (arrays of symbols). Every content is placed, one position kind
// at a time, into a schema written as HCL (the path the CLI takes), evaluated by the dialect, planned by the dialect's planner,
// written by each formatter, read back by the matching directory reader and scanned by the dialect's statement scanner.
package main

import (
	"bufio"
	"context"
	"encoding/json"
	"fmt"
	"os"
	"path/filepath"
	"strconv"
	"strings"

	"ariga.io/atlas/sql/migrate"
	"ariga.io/atlas/sql/mysql"
	"ariga.io/atlas/sql/postgres"
	"ariga.io/atlas/sql/schema"
	"ariga.io/atlas/sql/sqlite"
	"ariga.io/atlas/sql/sqltool"
)

var render = map[string]string{"sq": "'", "dq": "\"", "bt": "`", "sc": ";", "da": "-", "sl": "/", "st": "*", "nl": "\n", "sp": " ", "lp": "(", "rp": ")", "x": "x", "bs": "\\", "ha": "#"}

type dialect struct {
	name  string
	eval  func([]byte, any, map[string]any) error
	plan  migrate.PlanApplier
	scan  func(string) ([]*migrate.Stmt, error)
	intT  string
	strT  string
	enumT func(vals ...string) string // HCL for an enum type; "" if unsupported
}

type scanDriver struct {
	migrate.Driver
	f func(string) ([]*migrate.Stmt, error)
}

func (d scanDriver) ScanStmts(in string) ([]*migrate.Stmt, error) { return d.f(in) }

func hclStr(s string) string {
	r := strings.NewReplacer("\\", "\\\\", "\"", "\\\"", "\n", "\\n", "\r", "\\r", "\t", "\\t", "${", "$${", "%{", "%%{")
	return "\"" + r.Replace(s) + "\""
}

type kase struct {
	ID      int    `json:"id"`
	Dialect string `json:"dialect"`
	Kind    string `json:"kind"`
	Content string `json:"content"`
	HCL     string `json:"hcl,omitempty"`
}

// schemaHCL builds a two-table schema with the hostile content w at one position.
func schemaHCL(d *dialect, kind, w string) string {
	name := func(k, dflt string) string {
		if kind == k {
			return "a" + w + "b"
		}
		return dflt
	}
	var b strings.Builder
	sname := "main"
	if d.name != "sqlite" {
		sname = "app"
	}
	fmt.Fprintf(&b, "schema %s {\n}\n", hclStr(sname))
	tn, cn, in, fn := name("tname", "users"), name("cname", "title"), name("iname", "idx_title"), name("fkname", "fk_parent")
	fmt.Fprintf(&b, "table %s {\n  schema = schema.%s\n", hclStr("parents"), sname)
	fmt.Fprintf(&b, "  column \"id\" {\n    null = false\n    type = %s\n  }\n  primary_key {\n    columns = [column.id]\n  }\n}\n", d.intT)
	fmt.Fprintf(&b, "table %s {\n  schema = schema.%s\n", hclStr(tn), sname)
	fmt.Fprintf(&b, "  column \"id\" {\n    null = false\n    type = %s\n  }\n", d.intT)
	fmt.Fprintf(&b, "  column \"parent_id\" {\n    null = true\n    type = %s\n  }\n", d.intT)
	fmt.Fprintf(&b, "  column %s {\n    null = false\n    type = %s\n", hclStr(cn), d.strT)
	if kind == "dflt" {
		fmt.Fprintf(&b, "    default = %s\n", hclStr(w))
	}
	if kind == "ccomment" {
		fmt.Fprintf(&b, "    comment = %s\n", hclStr(w))
	}
	b.WriteString("  }\n")
	if kind == "enum" && d.enumT != nil {
		fmt.Fprintf(&b, "  column \"mood\" {\n    null = false\n    type = %s\n  }\n", d.enumT("ok", w))
	}
	if kind == "check" {
		// a check whose expression compares with the literal, quoted validly for the dialect by the harness (user-written SQL)
		lit := "'" + strings.ReplaceAll(w, "'", "''") + "'"
		if d.name == "mysql" {
			lit = "'" + strings.ReplaceAll(strings.ReplaceAll(w, "\\", "\\\\"), "'", "''") + "'"
		}
		fmt.Fprintf(&b, "  check \"ck\" {\n    expr = %s\n  }\n", hclStr("("+quoteIdentFor(d, cn)+" <> "+lit+")"))
	}
	fmt.Fprintf(&b, "  primary_key {\n    columns = [column.id]\n  }\n")
	fmt.Fprintf(&b, "  index %s {\n    columns = [column[%s]]\n  }\n", hclStr(in), hclStr(cn))
	fmt.Fprintf(&b, "  foreign_key %s {\n    columns = [column.parent_id]\n    ref_columns = [table.parents.column.id]\n    on_delete = CASCADE\n  }\n", hclStr(fn))
	if kind == "tcomment" {
		fmt.Fprintf(&b, "  comment = %s\n", hclStr(w))
	}
	b.WriteString("}\n")
	if kind == "enum" && d.name == "postgres" {
		fmt.Fprintf(&b, "enum \"mood\" {\n  schema = schema.%s\n  values = [\"ok\", %s]\n}\n", sname, hclStr(w))
	}
	return b.String()
}

func quoteIdentFor(d *dialect, s string) string {
	if d.name == "mysql" {
		return "`" + strings.ReplaceAll(s, "`", "``") + "`"
	}
	return "\"" + strings.ReplaceAll(s, "\"", "\"\"") + "\""
}

type format struct {
	name    string
	fmtr    migrate.Formatter
	open    func(string) (migrate.Dir, error)
	hasDown bool
	indent  string
	delim   string
}

func formats() []format {
	loc := func(p string) (migrate.Dir, error) { return migrate.NewLocalDir(p) }
	return []format{
		{name: "atlas", fmtr: migrate.DefaultFormatter, open: loc},
		{name: "atlas-indent", fmtr: migrate.DefaultFormatter, open: loc, indent: "  "},
		{name: "atlas-delim", fmtr: migrate.DefaultFormatter, open: loc, delim: "\n-- end of statement"},
		{name: "golang-migrate", fmtr: sqltool.GolangMigrateFormatter, open: func(p string) (migrate.Dir, error) { return sqltool.NewGolangMigrateDir(p) }, hasDown: true},
		{name: "goose", fmtr: sqltool.GooseFormatter, open: func(p string) (migrate.Dir, error) { return sqltool.NewGooseDir(p) }, hasDown: true},
		{name: "flyway", fmtr: sqltool.FlywayFormatter, open: func(p string) (migrate.Dir, error) { return sqltool.NewFlywayDir(p) }, hasDown: true},
		{name: "liquibase", fmtr: sqltool.LiquibaseFormatter, open: func(p string) (migrate.Dir, error) { return sqltool.NewLiquibaseDir(p) }, hasDown: true},
		{name: "dbmate", fmtr: sqltool.DBMateFormatter, open: func(p string) (migrate.Dir, error) { return sqltool.NewDBMateDir(p) }, hasDown: true},
	}
}

type obs struct {
	ID         int      `json:"id"`
	Case       int      `json:"case"`
	Format     string   `json:"format"`
	N          int      `json:"n"`
	Up         []int    `json:"up"`
	Down       []int    `json:"down"`
	WantDown   []int    `json:"wantdown"`
	HasDown    bool     `json:"hasdown"`
	Reversible bool     `json:"reversible"`
	AllRev     bool     `json:"allrev"`
	Err        string   `json:"err"`
	Planned    []string `json:"planned,omitempty"`
	Read       []string `json:"read,omitempty"`
	Style      string   `json:"style,omitempty"`
	Refused    string   `json:"refused,omitempty"`
}

func trimStmt(s string) string {
	return strings.TrimSpace(strings.TrimSuffix(strings.TrimSpace(s), ";"))
}

// downText extracts the text of the down section of a written directory (format-specific, by the harness).
func downText(fm format, dir string) (string, bool) {
	es, _ := os.ReadDir(dir)
	read := func(n string) string { b, _ := os.ReadFile(filepath.Join(dir, n)); return string(b) }
	for _, e := range es {
		n := e.Name()
		switch fm.name {
		case "golang-migrate":
			if strings.HasSuffix(n, ".down.sql") {
				return read(n), true
			}
		case "flyway":
			if strings.HasPrefix(n, "U") {
				return read(n), true
			}
		case "goose":
			if strings.HasSuffix(n, ".sql") {
				if i := strings.Index(read(n), "\n-- +goose Down\n"); i >= 0 {
					return read(n)[i+len("\n-- +goose Down\n"):], true
				}
			}
		case "dbmate":
			if strings.HasSuffix(n, ".sql") {
				if i := strings.Index(read(n), "\n-- migrate:down\n"); i >= 0 {
					return read(n)[i+len("\n-- migrate:down\n"):], true
				}
			}
		}
	}
	return "", false
}

func main() {
	cf, err := os.Open(os.Args[1])
	if err != nil {
		panic(err)
	}
	var maxCases int
	fmt.Sscan(os.Args[3], &maxCases)
	of, err := os.Create(os.Args[2])
	if err != nil {
		panic(err)
	}
	w := bufio.NewWriterSize(of, 1<<20)
	full, _ := os.Create(os.Args[2] + ".full")
	wf := bufio.NewWriterSize(full, 1<<20)
	dialects := []*dialect{
		{name: "mysql", eval: func(b []byte, v any, _ map[string]any) error { return mysql.EvalHCLBytes(b, v, nil) }, plan: mysql.DefaultPlan, scan: (&mysql.Driver{}).ScanStmts,
			intT: "int", strT: "varchar(255)", enumT: func(v ...string) string {
				q := []string{}
				for _, x := range v {
					q = append(q, hclStr(x))
				}
				return "enum(" + strings.Join(q, ",") + ")"
			}},
		{name: "postgres", eval: func(b []byte, v any, _ map[string]any) error { return postgres.EvalHCLBytes(b, v, nil) }, plan: postgres.DefaultPlan, scan: (&postgres.Driver{}).ScanStmts,
			intT: "integer", strT: "character_varying(255)", enumT: func(v ...string) string { return "enum.mood" }},
		{name: "sqlite", eval: func(b []byte, v any, _ map[string]any) error { return sqlite.EvalHCLBytes(b, v, nil) }, plan: sqlite.DefaultPlan, scan: (&sqlite.Driver{}).ScanStmts,
			intT: "integer", strT: "text"},
	}
	kinds := []string{"tname", "cname", "iname", "fkname", "dflt", "dflt_dq", "ccomment", "tcomment", "enum", "check"}
	root, err := os.MkdirTemp(os.Getenv("VERIF_SCRATCH"), "rt")
	if err != nil {
		panic(err)
	}
	defer os.RemoveAll(root)
	sc := bufio.NewScanner(cf)
	sc.Buffer(make([]byte, 1<<20), 1<<26)
	var (
		nobs, ncase, skipped int
		planRefused          int
		evalErr              = map[string]int{}
		byKind               = map[string]int{}
		samples              []obs
	)
	for sc.Scan() {
		var syms []string
		if err := json.Unmarshal(sc.Bytes(), &syms); err != nil {
			panic(err)
		}
		var cb strings.Builder
		for _, s := range syms {
			cb.WriteString(render[s])
		}
		content := cb.String()
		for _, d := range dialects {
			for _, kind := range kinds {
				if kind == "enum" && d.enumT == nil || d.name == "sqlite" && (kind == "ccomment" || kind == "tcomment") || kind == "dflt_dq" && d.name != "sqlite" {
					continue
				}
				if maxCases > 0 && ncase >= maxCases {
					break
				}
				ncase++
				k := kase{ID: ncase, Dialect: d.name, Kind: kind, Content: content}
				h := schemaHCL(d, kind, content)
				var realm schema.Realm
				if err := d.eval([]byte(h), &realm, nil); err != nil {
					// the HCL layer itself refuses the input: outside the property's domain (counted)
					skipped++
					evalErr[d.name+":"+kind]++
					continue
				}
				if kind == "dflt_dq" {
					// the form SQLite inspection reports for a column declared DEFAULT "...": a double-quoted literal
					for _, sc := range realm.Schemas {
						for _, t := range sc.Tables {
							if c, ok := t.Column("title"); ok {
								c.Default = &schema.Literal{V: strconv.Quote(content)}
							}
						}
					}
				}
				var changes []schema.Change
				for _, s := range realm.Schemas {
					for _, o := range s.Objects {
						changes = append(changes, &schema.AddObject{O: o})
					}
					for _, t := range s.Tables {
						changes = append(changes, &schema.AddTable{T: t})
					}
				}
				byKind[kind]++
				for _, fm := range formats() {
					nobs++
					o := obs{ID: nobs, Case: k.ID, Format: fm.name, Up: []int{}, Down: []int{}, WantDown: []int{}, HasDown: fm.hasDown}
					func() {
						defer func() {
							if r := recover(); r != nil {
								o.Err = fmt.Sprint("panic: ", r)
							}
						}()
						var popts []migrate.PlanOption
						if fm.indent != "" {
							popts = append(popts, func(po *migrate.PlanOptions) { po.Indent = fm.indent })
						}
						plan, err := d.plan.PlanChanges(context.Background(), "seed", changes, popts...)
						if err != nil {
							// no plan is produced for this input (e.g. SQLite refuses a default it cannot re-quote): nothing to round-trip
							o.Refused = "plan: " + err.Error()
							planRefused++
							return
						}
						plan.Version, plan.Name = "1", "seed"
						if fm.delim != "" {
							plan.Delimiter = fm.delim
						}
						o.N = len(plan.Changes)
						o.Reversible = plan.Reversible
						o.AllRev = true
						var want []string
						revIDs := map[string]int{}
						var wantDown []int
						next := len(plan.Changes)
						revs := make([][]string, len(plan.Changes))
						for i, c := range plan.Changes {
							want = append(want, c.Cmd)
							rs, err := c.ReverseStmts()
							if err != nil || len(rs) == 0 {
								o.AllRev = false
							}
							revs[i] = rs
						}
						for i := len(revs) - 1; i >= 0; i-- {
							for _, s := range revs[i] {
								next++
								if _, ok := revIDs[s]; !ok {
									revIDs[s] = next
								}
								wantDown = append(wantDown, revIDs[s])
							}
						}
						o.WantDown = wantDown
						if o.WantDown == nil {
							o.WantDown = []int{}
						}
						o.Planned = want
						p := filepath.Join(root, fmt.Sprint("c", nobs))
						if err := os.Mkdir(p, 0o755); err != nil {
							panic(err)
						}
						defer os.RemoveAll(p)
						files, err := fm.fmtr.Format(plan)
						if err != nil {
							o.Err = "format: " + err.Error()
							return
						}
						// every third observation: the files as a person (or the third-party tool) might have left them - blanks and tabs
						// after the terminating semicolons; neutral in every format's grammar (only for contents without line breaks,
						// where a line ending in ';' is the end of a statement)
						blanks := nobs%3 == 0 && !strings.Contains(content, "\n") && !strings.Contains(content, ";")
						for _, f := range files {
							b := f.Bytes()
							if blanks {
								ls := strings.Split(string(b), "\n")
								for i, l := range ls {
									if strings.HasSuffix(l, ";") {
										ls[i] = l + "  \t"
									}
								}
								b = []byte(strings.Join(ls, "\n"))
								o.Style = "trailing-blanks"
							}
							if err := os.WriteFile(filepath.Join(p, f.Name()), b, 0o644); err != nil {
								panic(err)
							}
						}
						dir, err := fm.open(p)
						if err != nil {
							o.Err = "open: " + err.Error()
							return
						}
						fs, err := dir.Files()
						if err != nil {
							o.Err = "files: " + err.Error()
							return
						}
						drv := scanDriver{f: d.scan}
						for _, f := range fs {
							stmts, err := migrate.FileStmts(drv, f)
							if err != nil {
								o.Err = "scan: " + err.Error()
								return
							}
							for _, s := range stmts {
								o.Read = append(o.Read, s)
								id := 0
								for i, c := range want {
									if trimStmt(s) == strings.TrimSpace(c) {
										id = i + 1
										if !contains(o.Up, id) {
											break
										}
									}
								}
								o.Up = append(o.Up, id)
							}
						}
						if fm.hasDown && fm.name != "liquibase" {
							if dt, ok := downText(fm, p); ok {
								ds, err := d.scan(dt)
								if err != nil {
									o.Err = "scan down: " + err.Error()
									return
								}
								for _, s := range ds {
									id := 0
									if v, ok := revIDs[trimStmt(s.Text)]; ok {
										id = v
									}
									o.Down = append(o.Down, id)
								}
							} else if len(wantDown) > 0 {
								o.Down = []int{-1}
							}
						} else {
							o.HasDown = false
						}
					}()
					lean := o
					lean.Planned, lean.Read = nil, nil
					b, _ := json.Marshal(lean)
					w.Write(b)
					w.WriteByte('\n')
					fo := map[string]any{"obs": o, "case": k}
					b, _ = json.Marshal(fo)
					wf.Write(b)
					wf.WriteByte('\n')
					if nobs%4001 == 17 && len(samples) < 3 {
						samples = append(samples, o)
					}
				}
			}
		}
	}
	w.Flush()
	of.Close()
	wf.Flush()
	full.Close()
	json.NewEncoder(os.Stdout).Encode(map[string]any{"observations": nobs, "cases": ncase, "skipped_by_hcl": skipped, "hcl_refusals": evalErr, "planner_refusals": planRefused, "cases_by_kind": byKind, "samples": samples})
}

func contains(xs []int, x int) bool {
	for _, y := range xs {
		if x == y {
			return true
		}
	}
	return false
}
