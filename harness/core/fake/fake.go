// Package fake holds scripted doubles of migrate.Driver and migrate.RevisionReadWriter.
// They implement only the *store semantics* the specifications trust: a journal that is
// appended by ExecContext and a revision table with upsert-by-version semantics.
package fake

import (
	"context"
	"database/sql"
	"errors"
	"sort"
	"time"

	"ariga.io/atlas/sql/migrate"
	"ariga.io/atlas/sql/schema"
)

// Event is one recorded call (the C->S trace alphabet of ApplyTrace).
type Event struct {
	Ev      string `json:"ev"`
	F       int    `json:"f"`
	I       int    `json:"i"`
	Ok      bool   `json:"ok"`
	Applied int    `json:"applied"`
	Total   int    `json:"total"`
	Err     bool   `json:"err"`
	Partial int    `json:"partial"`
	Txt     string `json:"txt,omitempty"`
}

// Driver is a scripted migrate.Driver. Only ExecContext/CheckClean/Lock/Snapshot are usable.
type Driver struct {
	migrate.Driver
	Clean    bool
	Journal  []string
	OnExec   func(stmt string) error // returns the injected fault, if any
	ExecHook func(stmt string, err error)
}

func (d *Driver) ExecContext(_ context.Context, q string, _ ...any) (sql.Result, error) {
	var err error
	if d.OnExec != nil {
		err = d.OnExec(q)
	}
	if err == nil {
		d.Journal = append(d.Journal, q)
	}
	if d.ExecHook != nil {
		d.ExecHook(q, err)
	}
	return nil, err
}

func (d *Driver) QueryContext(context.Context, string, ...any) (*sql.Rows, error) {
	return nil, errors.New("fake: QueryContext not supported")
}

func (d *Driver) Lock(context.Context, string, time.Duration) (schema.UnlockFunc, error) {
	return func() error { return nil }, nil
}

func (d *Driver) Snapshot(context.Context) (migrate.RestoreFunc, error) {
	return func(context.Context) error { return nil }, nil
}

func (d *Driver) CheckClean(context.Context, *migrate.TableIdent) error {
	if d.Clean {
		return nil
	}
	return &migrate.NotCleanError{Reason: "fake: database is not clean"}
}

// RRW is an in-memory revision table with upsert semantics, ordered by version.
type RRW struct {
	Revs      map[string]*migrate.Revision
	OnWrite   func(r *migrate.Revision) error
	WriteHook func(r *migrate.Revision, err error)
	ReadHook  func(v string)
	OnRead    func(v string) error // a non-nil result makes ReadRevision fail (nothing is read)
	Writes    int
}

func NewRRW() *RRW { return &RRW{Revs: map[string]*migrate.Revision{}} }

func (*RRW) Ident() *migrate.TableIdent { return &migrate.TableIdent{Name: "revs"} }

func clone(r *migrate.Revision) *migrate.Revision {
	c := *r
	c.PartialHashes = append([]string(nil), r.PartialHashes...)
	return &c
}

func (w *RRW) ReadRevisions(context.Context) ([]*migrate.Revision, error) {
	out := make([]*migrate.Revision, 0, len(w.Revs))
	for _, r := range w.Revs {
		out = append(out, clone(r))
	}
	sort.Slice(out, func(i, j int) bool { return out[i].Version < out[j].Version })
	return out, nil
}

func (w *RRW) ReadRevision(_ context.Context, v string) (*migrate.Revision, error) {
	if w.OnRead != nil {
		if err := w.OnRead(v); err != nil {
			return nil, err
		}
	}
	if w.ReadHook != nil {
		w.ReadHook(v)
	}
	r, ok := w.Revs[v]
	if !ok {
		return nil, migrate.ErrRevisionNotExist
	}
	return clone(r), nil
}

func (w *RRW) WriteRevision(_ context.Context, r *migrate.Revision) error {
	w.Writes++
	var err error
	if w.OnWrite != nil {
		err = w.OnWrite(r)
	}
	if err == nil {
		w.Revs[r.Version] = clone(r)
	}
	if w.WriteHook != nil {
		w.WriteHook(r, err)
	}
	return err
}

func (w *RRW) DeleteRevision(_ context.Context, v string) error {
	delete(w.Revs, v)
	return nil
}
