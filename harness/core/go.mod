module verif/core

go 1.22.12

require ariga.io/atlas v0.0.0

replace ariga.io/atlas => /repo
