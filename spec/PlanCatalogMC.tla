---- MODULE PlanCatalogMC ----
EXTENDS PlanCatalog
\* bounded exhaustive exploration of the catalogue model itself: plans of at most MaxLen statements
CONSTANT MaxLen
VARIABLE len
MCInit == Init /\ len = 0
MCNext == len < MaxLen /\ Next /\ len' = len + 1
MCSpec == MCInit /\ [][MCNext]_<<cvars, len>>
OnceBounded == \A t \in Tables : created[t] + dropped[t] <= MaxLen
====
