---- MODULE Pending ----
\* Reference decision for "which migration files does Atlas run next" (property C11).
\* Written from the documented semantics (flag help of `migrate apply`, doc comments of ExecOrder*,
\* WithBaselineVersion, WithAllowDirty, FilesFromLastCheckpoint), NOT from the Go control flow:
\*   - never a fully applied version again; always every version newer than the last applied one;
\*   - the partially applied file first;
\*   - first run on an empty database: start at the latest checkpoint (and only it), else at the first file;
\*   - versions up to the baseline are skipped;
\*   - files older than the last revision, not older than the first one, and absent from the history are
\*     rejected (linear), skipped (linear-skip) or run first (non-linear).
\* A directory is a strictly increasing sequence of [ver, ck]; a revision table a strictly increasing sequence
\* of [ver, done] where only the last entry may have done = FALSE; options o = [order, baseline, allowDirty, clean].
EXTENDS Naturals, Sequences, FiniteSets

Sel(s, P(_)) == SelectSeq(s, P)

Ok(files)   == IF files = <<>> THEN [kind |-> "nopending", files |-> <<>>, ooo |-> <<>>]
               ELSE [kind |-> "ok", files |-> [k \in DOMAIN files |-> files[k].ver], ooo |-> <<>>]
Err(k)      == [kind |-> k, files |-> <<>>, ooo |-> <<>>]

PendingSpec(dir, revs, o) ==
  LET Migs      == Sel(dir, LAMBDA f : ~f.ck)
      After(s,v)== Sel(s, LAMBDA f : f.ver > v)
      From(s,v) == Sel(s, LAMBDA f : f.ver >= v)
      InRevs(v) == \E k \in DOMAIN revs : revs[k].ver = v
      CkIdx     == { k \in DOMAIN dir : dir[k].ck }
      LastCk    == IF CkIdx = {} THEN 0 ELSE CHOOSE k \in CkIdx : \A j \in CkIdx : j <= k
      IsCk(v)   == \E k \in DOMAIN dir : dir[k].ver = v /\ dir[k].ck
      IsMig(v)  == \E k \in DOMAIN Migs : Migs[k].ver = v
      FirstRun  ==
        IF ~o.clean /\ ~o.allowDirty /\ o.baseline = 0 THEN Err("notclean")
        ELSE IF o.baseline # 0
             THEN IF IsMig(o.baseline) THEN Ok(After(Migs, o.baseline)) ELSE Err("nobaseline")
             ELSE IF LastCk = 0 THEN Ok(dir) ELSE Ok(SubSeq(dir, LastCk, Len(dir)))
      LaterRun  ==
        LET last  == revs[Len(revs)]
            first == revs[1].ver
        IN IF ~last.done /\ IsCk(last.ver)
              THEN Ok(<<[ver |-> last.ver, ck |-> TRUE]>> \o After(Migs, last.ver))
           ELSE IF ~last.done /\ ~IsMig(last.ver)
              THEN IF Migs = <<>> THEN Ok(<<>>) ELSE Err("missing")
           ELSE LET base == IF last.done THEN After(Migs, last.ver) ELSE From(Migs, last.ver)
                    ooo  == Sel(Migs, LAMBDA f : f.ver >= first /\ f.ver < last.ver /\ ~InRevs(f.ver))
                IN CASE ooo = <<>> \/ o.order = "linear-skip" -> Ok(base)
                     [] o.order = "non-linear"                -> Ok(ooo \o base)
                     [] OTHER -> [kind |-> "nonlinear", files |-> [k \in DOMAIN base |-> base[k].ver],
                                  ooo |-> [k \in DOMAIN ooo |-> ooo[k].ver]]
  IN IF revs = <<>> THEN FirstRun ELSE LaterRun

\* ---- well-formedness of the decision (checked over every case by PendingEnum) ---------------------
RangeOf(s) == { s[k] : k \in DOMAIN s }
NoDup(s) == \A a, b \in DOMAIN s : a # b => s[a] # s[b]
DoneVers(revs) == { revs[k].ver : k \in { j \in DOMAIN revs : revs[j].done } }
LastVer(revs)  == revs[Len(revs)].ver
DirVers(dir)   == { dir[k].ver : k \in DOMAIN dir }
MigVers(dir)   == { dir[k].ver : k \in { j \in DOMAIN dir : ~dir[j].ck } }

\* The documented semantics, as predicates over (case, decision): these are what C11's statement says.
NeverAppliedAgain(c, d) == d.kind = "ok" => RangeOf(d.files) \cap DoneVers(c.revs) = {}
FromDirOnly(c, d)       == RangeOf(d.files) \subseteq DirVers(c.dir) /\ NoDup(d.files)
NewerAlwaysRun(c, d)    == (d.kind = "ok" /\ c.revs # <<>>) =>
                              { v \in MigVers(c.dir) : v > LastVer(c.revs) } \subseteq RangeOf(d.files)
PartialFirst(c, d)      == (d.kind = "ok" /\ c.revs # <<>> /\ ~c.revs[Len(c.revs)].done /\ c.o.order # "non-linear")
                              => d.files[1] = LastVer(c.revs)
WellFormed(c, d) == NeverAppliedAgain(c, d) /\ FromDirOnly(c, d) /\ NewerAlwaysRun(c, d) /\ PartialFirst(c, d)
====
