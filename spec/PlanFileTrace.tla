---- MODULE PlanFileTrace ----
\* C->S for C07 / C17(down files): one observation per (plan, formatter).  The harness maps every statement it read back to the
\* index of the planned statement with exactly that text (0 = no planned statement has this text) and TLC checks the PlanFile
\* property on these ids:  up = <<1..n>>,  down = the flattened reversed reverse lists (ids n+1.. in plan order).
EXTENDS Naturals, Sequences, FiniteSets, TLC, Json
CONSTANT TraceFile
Trace == ndJsonDeserialize(TraceFile)
VARIABLES l, viol
Ev == Trace[l]
Iota(n) == [k \in 1..n |-> k]
Names(e) == (IF e.err = "" THEN {} ELSE {"ReadError"})
            \cup (IF e.err # "" \/ e.up = Iota(e.n) THEN {} ELSE {"UpStatementsDiffer"})
            \cup (IF e.err # "" \/ ~e.hasdown \/ e.down = e.wantdown THEN {} ELSE {"DownStatementsDiffer"})
            \cup (IF e.reversible = e.allrev THEN {} ELSE {"ReversibleFlag"})
Init == l = 1 /\ viol = {}
Obs == /\ l <= Len(Trace) /\ l' = l + 1
       /\ LET bad == Names(Ev) IN viol' = IF bad = {} \/ Cardinality(viol) >= 600 THEN viol ELSE viol \cup {<<Ev.id, CHOOSE x \in bad : TRUE>>}
Next == /\ Obs
        /\ (l' = Len(Trace) + 1) => PrintT(<<"VIOLS", ToJson(viol')>>)
Spec == Init /\ [][Next]_<<l, viol>>
Accepted == TLCGet("stats").diameter - 1 = Len(Trace)
====
