---- MODULE DevDBMonitor ----
\* Property layer for C14 over real CLI invocations: one observation per invocation.
\*   dirty (the dev database held user objects before), needs (the invocation replays SQL / a migration directory on the dev database),
\*   ok (exit status 0), notclean (the error is the not-clean refusal), same (full logical dump + sqlite_master of the dev database are
\*   byte-identical to before), empty (the dev database has no object afterwards), dirsame (the migration directory is byte-identical),
\*   diffcmd (the command is `migrate diff`), nopreexisting (dev database file did not exist before)
EXTENDS Naturals, Sequences, FiniteSets, TLC, Json
CONSTANT TraceFile
Trace == ndJsonDeserialize(TraceFile)
VARIABLES l, viol
Ev == Trace[l]
Bad(name, cond) == IF cond THEN {} ELSE {<<Ev.id, name>>}
Init == l = 1 /\ viol = {}
Obs == /\ l <= Len(Trace) /\ l' = l + 1
       /\ viol' = viol
            \cup Bad("Untouched", Ev.dirty => Ev.same)
            \cup Bad("RefusedIfDirty", (Ev.dirty /\ Ev.needs) => (~Ev.ok /\ Ev.notclean))
            \cup Bad("HandedBackEmpty", ~Ev.dirty => Ev.empty)
            \cup Bad("DirOnlyByDiff", ~Ev.dirsame => (Ev.diffcmd /\ Ev.ok))
            \cup Bad("NoSpuriousRefusal", (~Ev.dirty /\ Ev.failat = 0) => Ev.ok)
            \cup Bad("FailureReported", (~Ev.dirty /\ Ev.failat # 0) => ~Ev.ok)
Next == /\ Obs
        /\ (l' = Len(Trace) + 1) => PrintT(<<"VIOLS", ToJson(viol')>>)
Spec == Init /\ [][Next]_<<l, viol>>
Accepted == TLCGet("stats").diameter - 1 = Len(Trace)
====
