---- MODULE LintMonitor ----
\* Property layer for C18: one observation per (directory, file inside the lint window).
\*   destructive / additive / temponly / causes : the reference classification from LintModel.tla
\*   diags : statement indexes (1-based, by position) at which `migrate lint` reported a destructive-change diagnostic (DS102 / DS103)
\*   groups: for every causing statement the set of statement indexes that count as "the statement that causes it" (the statement itself;
\*           for a rebuild: every statement of the rebuild group)
\*   failed : the lint command exited with a failing status
EXTENDS Naturals, Sequences, FiniteSets, TLC, Json
CONSTANT TraceFile
Trace == ndJsonDeserialize(TraceFile)
VARIABLES l, viol
Ev == Trace[l]
SetOf(s) == { s[k] : k \in DOMAIN s }
Bad(name, cond) == IF cond THEN {} ELSE {<<Ev.id, name>>}
Init == l = 1 /\ viol = {}
Obs == /\ l <= Len(Trace) /\ l' = l + 1
       /\ LET D == SetOf(Ev.diags) IN
          viol' = viol
            \cup Bad("DestructiveFlagged", Ev.destructive => D # {})
            \cup Bad("OnCausingStatement", Ev.destructive => \A k \in DOMAIN Ev.groups : SetOf(Ev.groups[k]) \cap D # {})
            \cup Bad("FailingExitStatus", Ev.destructive => Ev.failed)
            \cup Bad("NoFalseAlarmOnAdditive", (Ev.additive \/ Ev.temponly) => D = {})
            \cup Bad("LintError", Ev.err = "")
Next == /\ Obs
        /\ (l' = Len(Trace) + 1) => PrintT(<<"VIOLS", ToJson(viol')>>)
Spec == Init /\ [][Next]_<<l, viol>>
Accepted == TLCGet("stats").diameter - 1 = Len(Trace)
====
