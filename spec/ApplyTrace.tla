---- MODULE ApplyTrace ----
\* Conformance layer: the calls recorded from the real Executor (scripted stores) must be a behaviour of Apply.tla.
\* One trace action per specification action; CheckPartial has no observable call and is a silent step.
\* Thousands of executions are concatenated; a "reset" event starts the next one.
EXTENDS Apply, Json
CONSTANT TraceFile
VARIABLE l
Trace == ndJsonDeserialize(TraceFile)
Ev == Trace[l]
Is(e) == l <= Len(Trace) /\ Ev.ev = e /\ l' = l + 1

TraceShapes == {<<>>}
TInit == /\ Init /\ l = 1
TReset == /\ Is("reset")
          /\ dirv' = Ev.shape
          /\ journal' = <<>> /\ revs' = [ff \in DOMAIN Ev.shape |-> NoRev]
          /\ pc' = "idle" /\ f' = 0 /\ i' = 0 /\ r' = NoRev /\ stmts' = <<>> /\ left' = 0
          /\ budget' = MaxFaults /\ runs' = 0 /\ edits' = 0 /\ fresh' = 100
          /\ lost' = <<>> /\ wfault' = FALSE /\ runErr' = "none"
          /\ snapJ' = <<>> /\ snapR' = revs' /\ ran' = {}
TRun   == /\ Is("run") /\ RunStart(Ev.n)
TRead  == /\ Is("read") /\ FileStart /\ Ev.f = f
TReadFail == /\ Is("readfail") /\ ReadFail /\ Ev.f = f
TExec  == /\ Is("exec") /\ Exec /\ Ev.f = f /\ Ev.tok = stmts[i]
          /\ (Ev.ok <=> budget' = budget)
TWrite == /\ Is("write") /\ (WStart \/ WProg \/ Finish \/ Defer)
          /\ Ev.f = f /\ Ev.applied = r'.applied /\ Ev.total = r'.total /\ Ev.err = r'.err /\ Ev.partial = r'.partial
          /\ (Ev.ok <=> budget' = budget)
TEnd   == /\ Is("end") /\ pc = "idle" /\ Ev.cls = runErr /\ UNCHANGED vars
TEdit  == /\ Is("edit") /\ Edit /\ dirv'[Ev.f] = Ev.toks
TSilent == /\ CheckPartial /\ UNCHANGED l

TStep == TReset \/ TRun \/ TRead \/ TReadFail \/ TExec \/ TWrite \/ TEnd \/ TEdit \/ TSilent
\* registers: 1 = set of specification states visited (projected), 2 = high-water mark of the trace cursor
Visit(x) == IF x \in TLCGet(1) THEN TRUE ELSE TLCSet(1, TLCGet(1) \cup {x})
TNext == /\ TStep
         /\ Visit(<<journal', revs', pc', f', i', r', dirv'>>)
         /\ TLCSet(2, l')
TSpec == TInit /\ TLCSet(1, {}) /\ TLCSet(2, 1) /\ [][TNext]_<<vars, l>>
Accepted == /\ PrintT(<<"VISITED", Cardinality(TLCGet(1)), "REACHED", TLCGet(2), "LEN", Len(Trace)>>)
            /\ TLCGet(2) = Len(Trace) + 1
====
