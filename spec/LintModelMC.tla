---- MODULE LintModelMC ----
EXTENDS LintModel, Json
CONSTANT Depth
\* completed directories: all files closed
Emit == (cur = <<>> /\ Len(files) = MaxFiles) => PrintT(<<"VTRACE", ToJson(files)>>)
====
