---- MODULE PendingEnum ----
\* Enumeration configuration of Pending.tla: TLC evaluates the reference on EVERY case over versions 1..N
\* and exports [case, expected decision] as ndjson; the harness compares with the real Executor.Pending.
EXTENDS Pending, TLC, Json, SequencesExt
CONSTANTS N, OutFile
V == 1..N

\* A directory: each version absent (0), file (1) or checkpoint (2).
DirOf(m) == LET present == Sel([k \in 1..N |-> [ver |-> k, ck |-> (m[k] = 2), here |-> (m[k] # 0)]], LAMBDA f : f.here)
            IN [k \in DOMAIN present |-> [ver |-> present[k].ver, ck |-> present[k].ck]]
\* A revision table: subset of versions, last possibly partial.
RevsOf(S, lastDone) == LET all == Sel([k \in 1..N |-> [ver |-> k, in |-> (k \in S)]], LAMBDA r : r.in)
                       IN [k \in DOMAIN all |-> [ver |-> all[k].ver, done |-> (IF k = Len(all) THEN lastDone ELSE TRUE)]]

Orders == {"linear", "linear-skip", "non-linear"}
FirstOpts == { [order |-> "linear", baseline |-> b, allowDirty |-> a, clean |-> c] :
                 b \in 0..N, a \in BOOLEAN, c \in BOOLEAN }
LaterOpts == { [order |-> ord, baseline |-> 0, allowDirty |-> FALSE, clean |-> FALSE] : ord \in Orders }

Cases ==
  { [dir |-> DirOf(m), revs |-> <<>>, o |-> o] : m \in [V -> 0..2], o \in {x \in FirstOpts : ~(x.baseline # 0 /\ x.allowDirty)} }
  \cup
  { [dir |-> DirOf(m), revs |-> RevsOf(S, d), o |-> o] :
       m \in [V -> 0..2], S \in (SUBSET V) \ {{}}, d \in BOOLEAN, o \in LaterOpts }

Out == { [c |-> c, want |-> PendingSpec(c.dir, c.revs, c.o)] : c \in Cases }

ASSUME PrintT(<<"CASES", Cardinality(Cases)>>)
\* model obligation: the reference is total and every decision is well-formed
ASSUME \A x \in Out : WellFormed(x.c, x.want)
ASSUME PrintT(<<"KINDS", ToJson([k \in {"ok","nopending","nonlinear","missing","notclean","nobaseline"} |-> Cardinality({x \in Out : x.want.kind = k})])>>)
ASSUME ndJsonSerialize(OutFile, SetToSeq(Out))
====
