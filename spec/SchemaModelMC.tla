---- MODULE SchemaModelMC ----
\* Checking and export configuration of SchemaModel.tla: Exact (complete and minimal) and DiffSpec(S,S) = {} over the edit
\* neighbourhood of ONE seed (the check driver runs one TLC per seed in parallel); export of (from, to, expected change set).
EXTENDS SchemaModel, Json, SequencesExt
CONSTANTS SeedName, \* "Empty" | "Seed1" | "Seed2" | "Seed3"
          Depth2,   \* TRUE: also all single edits from every state one edit away from the seed (thorough)
          OutFile
Seed == CASE SeedName = "Empty" -> Empty [] SeedName = "Seed1" -> Seed1 [] SeedName = "Seed2" -> Seed2 [] OTHER -> Seed3
R1 == Reach({Seed}, 1)
Pairs1 == { <<Seed, R>> : R \in Succ(Seed) }
Pairs2 == IF Depth2 THEN UNION { { <<S, R>> : R \in Succ(S) } : S \in R1 } ELSE {}
\* pairs at distance 2 from the seed (compound edits)
Pairs12 == { <<Seed, R>> : R \in UNION {Succ(M) : M \in Succ(Seed)} }
All == Pairs1 \cup Pairs2 \cup Pairs12
ASSUME PrintT(<<"STATS", ToJson([seedWF |-> WF(Seed), reach1 |-> Cardinality(R1), pairs1 |-> Cardinality(Pairs1), pairs2 |-> Cardinality(Pairs2), pairs12 |-> Cardinality(Pairs12), all |-> Cardinality(All)])>>)
ASSUME WF(Seed)
ASSUME \A p \in All : Exact(p[1], p[2])
ASSUME \A S \in R1 : DiffSpec(S, S) = {}
\* C19: the skip filter never leaks a disabled kind and keeps every other kind, for every single disabled kind and for "all drops"
Drops == {"DropTable", "DropColumn", "DropIndex", "DropFK"}
ASSUME \A p \in Pairs1 : \A K \in { {k} : k \in KindsOf(DiffSpec(p[1], p[2])) } \cup {Drops} : SkipSound(p[1], p[2], K)
\* descriptor classes exhibited by the exported pairs (seed adequacy is measured, not assumed)
Classes == UNION { UNION { { <<x.k, "-", {}>> } \cup (IF x.k = "ModifyTable" THEN { <<y.k, "-", y.f>> : y \in x.ch } ELSE {}) : x \in DiffSpec(p[1], p[2]) } : p \in All }
ASSUME PrintT(<<"CLASSES", Cardinality(Classes)>>)
ASSUME ndJsonSerialize(OutFile, SetToSeq({ [from |-> p[1], to |-> p[2], diff |-> DiffSpec(p[1], p[2])] : p \in All }))
====
