---- MODULE SchemaModelMC ----
\* Checking and export configuration of SchemaModel.tla: Exact (complete and minimal) and DiffSpec(S,S) = {} over the edit
\* neighbourhood of the seeds; export of (from, to, expected change set) for the bindings.
EXTENDS SchemaModel, Json, SequencesExt
CONSTANTS Wide,     \* TRUE: compound (two-edit) pairs from every seed; FALSE: from Seed2 only (quick tier)
          Depth2,   \* TRUE: also all single edits from every state one edit away from a seed (thorough)
          OutFile
R1 == Reach(Seeds, 1)
Pairs1 == UNION { { <<S, R>> : R \in Succ(S) } : S \in Seeds }
Pairs2 == IF Depth2 THEN UNION { { <<S, R>> : R \in Succ(S) } : S \in R1 } ELSE {}
\* pairs at distance 2 from the seeds (compound edits)
Pairs12 == UNION { { <<S, R>> : R \in UNION {Succ(M) : M \in Succ(S)} } : S \in (IF Wide THEN Seeds ELSE {Seed2}) }
All == Pairs1 \cup Pairs2 \cup Pairs12
ASSUME PrintT(<<"STATS", ToJson([seedsWF |-> \A S \in Seeds : WF(S), reach1 |-> Cardinality(R1), pairs1 |-> Cardinality(Pairs1), pairs2 |-> Cardinality(Pairs2), pairs12 |-> Cardinality(Pairs12), all |-> Cardinality(All)])>>)
ASSUME \A p \in All : Exact(p[1], p[2])
ASSUME \A S \in R1 : DiffSpec(S, S) = {}
\* descriptor classes exhibited by the exported pairs (seed adequacy is measured, not assumed)
Classes == UNION { UNION { { <<x.k, "-", {}>> } \cup (IF x.k = "ModifyTable" THEN { <<y.k, "-", y.f>> : y \in x.ch } ELSE {}) : x \in DiffSpec(p[1], p[2]) } : p \in All }
ASSUME PrintT(<<"CLASSES", Cardinality(Classes)>>)
ASSUME ndJsonSerialize(OutFile, SetToSeq({ [from |-> p[1], to |-> p[2], diff |-> DiffSpec(p[1], p[2])] : p \in All }))
====
