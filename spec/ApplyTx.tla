---- MODULE ApplyTx ----
\* `atlas migrate apply` as the CLI runs it: the transaction multiplexer (cmd/atlas/internal/cmdapi: tx.driverFor /
\* mayRollback / mayCommit / commit) around Executor.Execute, on a database with SQLite's single-writer rule,
\* with a failing statement, per-file txmode directives, the count argument, --dry-run and process crashes.
\* Serves C13 (failure atomicity per transaction mode, dry-run) and C10 (crash consistency, recovery).
\*
\* disk = (dj, dr): committed journal (effects of the statements) and committed revision table.
\* tx   = (txo, txj, txr): an open transaction's pending journal appends and revision overlay.
\* A configuration c = [mode, dir, nst, fail, count, dry] is chosen at Init (exhaustive runs) or bound from the
\* trace header (trace validation).  Variant = "intended" is the specification; "asIs" reproduces the code as found
\* (mayCommit tested the global mode instead of the file's effective mode) and exists for the sensitivity self-test.
EXTENDS Naturals, Sequences, FiniteSets, TLC
CONSTANTS Configs, MaxCrash, MaxCmds, Variant

NoRev == [applied |-> 0, total |-> 0, err |-> FALSE, exists |-> FALSE]
Unset == [applied |-> 0, total |-> 0, err |-> FALSE, exists |-> FALSE, set |-> FALSE]

VARIABLES c,               \* configuration
          dj, dr,          \* disk: journal (sequence of <<f,i>>), revisions (file -> record)
          txo, txj, txr,   \* transaction: open?, pending journal appends, revision overlay
          pc, f, i, r, cur, \* control; cur = effective mode of the current file
          left,            \* files still to run in this command (0 = no limit)
          err,             \* error class of the current / last command ("" = none)
          fail,            \* remaining statement failure (consumed once, then the file is "fixed")
          crashes, cmds,
          startj, startr,  \* disk at CmdStart
          lastdone         \* disk after the last file that was committed completely in this command
vars == <<c, dj, dr, txo, txj, txr, pc, f, i, r, cur, left, err, fail, crashes, cmds, startj, startr, lastdone>>

Files     == DOMAIN c.nst
NS(ff)    == c.nst[ff]
Eff(ff)   == IF txo /\ txr[ff].set THEN [applied |-> txr[ff].applied, total |-> txr[ff].total, err |-> txr[ff].err, exists |-> TRUE] ELSE dr[ff]
DoneD(ff) == dr[ff].exists /\ dr[ff].applied = dr[ff].total
Min(S)    == CHOOSE x \in S : \A y \in S : x <= y
TxDirty   == txo /\ (txj # <<>> \/ \E ff \in Files : txr[ff].set)
ModeOf(cf, ff) == IF cf.dir[ff] = "" \/ cf.dir[ff] = cf.mode THEN cf.mode
                  ELSE IF cf.mode = "all" THEN "conflict" ELSE cf.dir[ff]
ModeFor(ff) == ModeOf(c, ff)
InTx == cur \in {"file", "all"}
EmptyTxr == [ff \in Files |-> Unset]

Init == /\ c \in Configs
        /\ dj = <<>> /\ dr = [ff \in DOMAIN c.nst |-> NoRev]
        /\ txo = FALSE /\ txj = <<>> /\ txr = [ff \in DOMAIN c.nst |-> Unset]
        /\ pc = "idle" /\ f = 0 /\ i = 0 /\ r = NoRev /\ cur = "" /\ left = 0 /\ err = ""
        /\ fail = c.fail /\ crashes = MaxCrash /\ cmds = 0 /\ startj = <<>> /\ startr = dr /\ lastdone = [j |-> <<>>, r |-> dr]

\* migrateApplyRun up to the loop over the pending files
CmdStart == /\ pc = "idle" /\ cmds < MaxCmds
            /\ cmds' = cmds + 1 /\ startj' = dj /\ startr' = dr /\ lastdone' = [j |-> dj, r |-> dr]
            /\ IF \E ff \in Files : ~DoneD(ff)
                 THEN /\ err' = "" /\ f' = Min({ff \in Files : ~DoneD(ff)}) /\ pc' = "driver" /\ left' = c.count
                 ELSE /\ err' = "" /\ pc' = "idle" /\ UNCHANGED <<f, left>>        \* "no migration files to execute"
            /\ UNCHANGED <<c, dj, dr, txo, txj, txr, i, r, cur, fail, crashes>>
\* tx.driverFor
DriverFor == /\ pc = "driver"
             /\ IF c.dry THEN /\ cur' = "dry" /\ pc' = "file" /\ UNCHANGED <<txo, err>>
                ELSE LET m == ModeFor(f) IN
                  CASE m = "conflict" -> /\ err' = "directive-conflict" /\ pc' = "end" /\ UNCHANGED <<txo, cur>>
                    [] m = "none"     -> /\ cur' = "none" /\ pc' = "file" /\ UNCHANGED <<txo, err>>
                    [] m = "file"     -> IF txo THEN /\ err' = "active-tx" /\ pc' = "end" /\ UNCHANGED <<txo, cur>>
                                         ELSE /\ txo' = TRUE /\ cur' = "file" /\ pc' = "file" /\ UNCHANGED err
                    [] m = "all"      -> /\ txo' = TRUE /\ cur' = "all" /\ pc' = "file" /\ UNCHANGED err
             /\ UNCHANGED <<c, dj, dr, txj, txr, f, i, r, left, fail, crashes, cmds, startj, startr, lastdone>>
FileStart == /\ pc = "file"
             /\ r' = IF Eff(f).exists /\ InTx THEN Eff(f) ELSE IF dr[f].exists THEN dr[f]
                     ELSE [applied |-> 0, total |-> NS(f), err |-> FALSE, exists |-> TRUE]
             /\ pc' = "wstart"
             /\ UNCHANGED <<c, dj, dr, txo, txj, txr, f, i, cur, left, err, fail, crashes, cmds, startj, startr, lastdone>>
\* one revision write; outside a dirty transaction on SQLite it fails with "locked"
WriteRev(next) ==
  IF cur = "dry" THEN /\ pc' = next /\ UNCHANGED <<dr, txr, err>>
  ELSE IF InTx THEN /\ txr' = [txr EXCEPT ![f] = [applied |-> r.applied, total |-> r.total, err |-> r.err, exists |-> TRUE, set |-> TRUE]]
                    /\ pc' = next /\ UNCHANGED <<dr, err>>
  ELSE IF TxDirty THEN /\ err' = "locked" /\ pc' = "rollback" /\ UNCHANGED <<dr, txr>>
  ELSE /\ dr' = [dr EXCEPT ![f] = r] /\ pc' = next /\ UNCHANGED <<txr, err>>
WStart == /\ pc = "wstart" /\ WriteRev("exec") /\ i' = r.applied + 1
          /\ UNCHANGED <<c, dj, txo, txj, f, r, cur, left, fail, crashes, cmds, startj, startr, lastdone>>
Exec == /\ pc = "exec" /\ i <= NS(f)
        /\ IF cur = "dry"
             THEN /\ r' = [r EXCEPT !.applied = @ + 1, !.err = FALSE] /\ pc' = "wprog" /\ UNCHANGED <<dj, txj, fail, err>>
           ELSE IF fail = <<f, i>>
             THEN /\ r' = [r EXCEPT !.err = TRUE] /\ fail' = <<0, 0>> /\ err' = "stmt-failed" /\ pc' = "deferr"
                  /\ UNCHANGED <<dj, txj>>
             ELSE /\ IF InTx THEN txj' = Append(txj, <<f, i>>) /\ UNCHANGED dj
                             ELSE dj' = Append(dj, <<f, i>>) /\ UNCHANGED txj
                  /\ r' = [r EXCEPT !.applied = @ + 1, !.err = FALSE] /\ pc' = "wprog"
                  /\ UNCHANGED <<fail, err>>
        /\ UNCHANGED <<c, dr, txo, txr, f, i, cur, left, crashes, cmds, startj, startr, lastdone>>
WProg == /\ pc = "wprog" /\ WriteRev("exec") /\ i' = i + 1
         /\ UNCHANGED <<c, dj, txo, txj, f, r, cur, left, fail, crashes, cmds, startj, startr, lastdone>>
Finish == /\ pc = "exec" /\ i > NS(f) /\ WriteRev("commitfile")
          /\ UNCHANGED <<c, dj, txo, txj, f, i, r, cur, left, fail, crashes, cmds, startj, startr, lastdone>>
DefErr == /\ pc = "deferr"
          /\ IF InTx THEN /\ txr' = [txr EXCEPT ![f] = [applied |-> r.applied, total |-> r.total, err |-> TRUE, exists |-> TRUE, set |-> TRUE]] /\ UNCHANGED dr
             ELSE IF TxDirty THEN UNCHANGED <<dr, txr>>
             ELSE /\ dr' = [dr EXCEPT ![f] = r] /\ UNCHANGED txr
          /\ pc' = "rollback"
          /\ UNCHANGED <<c, dj, txo, txj, f, i, r, cur, left, err, fail, crashes, cmds, startj, startr, lastdone>>
\* tx.mayRollback(err)
Rollback == /\ pc = "rollback"
            /\ txo' = FALSE /\ txj' = <<>> /\ txr' = EmptyTxr /\ pc' = "end"
            /\ UNCHANGED <<c, dj, dr, f, i, r, cur, left, err, fail, crashes, cmds, startj, startr, lastdone>>
Committed == [j |-> dj \o txj,
              r |-> [ff \in Files |-> IF txr[ff].set THEN [applied |-> txr[ff].applied, total |-> txr[ff].total, err |-> txr[ff].err, exists |-> TRUE] ELSE dr[ff]]]
Commit == /\ dj' = Committed.j /\ dr' = Committed.r
          /\ txo' = FALSE /\ txj' = <<>> /\ txr' = EmptyTxr
\* tx.mayCommit after a file: commit when the *file's* transaction ends here
MayCommit == /\ pc = "commitfile"
             /\ LET doit == txo /\ (IF Variant = "asIs" THEN c.mode = "file" ELSE cur = "file") IN
                  IF doit THEN Commit /\ lastdone' = Committed
                  ELSE /\ UNCHANGED <<dj, dr, txo, txj, txr>>
                       /\ lastdone' = IF txo THEN lastdone ELSE [j |-> dj, r |-> dr]
             /\ LET rest == {ff \in Files : ff > f} IN
                  IF rest # {} /\ left # 1
                    THEN f' = Min(rest) /\ pc' = "driver" /\ left' = (IF left = 0 THEN 0 ELSE left - 1)
                    ELSE f' = f /\ pc' = "final" /\ UNCHANGED left
             /\ UNCHANGED <<c, i, r, cur, err, fail, crashes, cmds, startj, startr>>
Final == /\ pc = "final"
         /\ IF txo THEN Commit ELSE UNCHANGED <<dj, dr, txo, txj, txr>>
         /\ pc' = "end"
         /\ UNCHANGED <<c, f, i, r, cur, left, err, fail, crashes, cmds, startj, startr, lastdone>>
\* command returns; an open transaction dies with the connection
CmdEnd == /\ pc = "end" /\ pc' = "idle"
          /\ txo' = FALSE /\ txj' = <<>> /\ txr' = EmptyTxr
          /\ UNCHANGED <<c, dj, dr, f, i, r, cur, left, err, fail, crashes, cmds, startj, startr, lastdone>>
\* the process dies: no deferred code runs, the open transaction is lost
Crash == /\ pc \notin {"idle"} /\ crashes > 0 /\ crashes' = crashes - 1
         /\ pc' = "idle" /\ err' = "crash"
         /\ txo' = FALSE /\ txj' = <<>> /\ txr' = EmptyTxr
         /\ UNCHANGED <<c, dj, dr, f, i, r, cur, left, fail, cmds, startj, startr, lastdone>>

Next == CmdStart \/ DriverFor \/ FileStart \/ WStart \/ Exec \/ WProg \/ Finish \/ DefErr \/ Rollback \/ MayCommit \/ Final \/ CmdEnd \/ Crash
Spec == Init /\ [][Next]_vars
FairSpec == Spec /\ WF_vars(Next)

\* ---- properties ------------------------------------------------------------------------
Cnt(ff, ii) == Cardinality({k \in DOMAIN dj : dj[k] = <<ff, ii>>})
TypeOK == pc \in {"idle", "driver", "file", "wstart", "exec", "wprog", "deferr", "rollback", "commitfile", "final", "end"}
\* the revision table never records a statement whose effect is not in the database (every state of the disk)
RevNotAhead == \A ff \in Files : \A ii \in 1..dr[ff].applied : Cnt(ff, ii) >= 1
Atomic(ff) == \/ (\A ii \in 1..NS(ff) : Cnt(ff, ii) = 0) /\ ~DoneD(ff)
              \/ (\A ii \in 1..NS(ff) : Cnt(ff, ii) = 1) /\ DoneD(ff)
\* a crash or failure never leaves a file half applied in file / all mode
FileAtomic == c.dry \/ \A ff \in Files : ModeFor(ff) \in {"file", "all"} => Atomic(ff)
AtMostOnceTx == \A ff \in Files : \A ii \in 1..NS(ff) : ModeFor(ff) \in {"file", "all"} => Cnt(ff, ii) <= 1
\* in none mode at most the statement in flight at a crash is executed twice
RepeatBoundNone == \A ff \in Files : \A ii \in 1..NS(ff) : Cnt(ff, ii) <= 1 + (MaxCrash - crashes)
\* a directory without a failing statement and without crashes applies without error
\* (the documented refusal of a per-file directive under --tx-mode all is not spurious)
NoSpuriousError == (pc = "idle" /\ c.fail = <<0, 0>> /\ crashes = MaxCrash /\ cmds > 0) => err \in {"", "directive-conflict"}
Conflict == \E ff \in Files : ModeFor(ff) = "conflict"
\* C13 failure atomicity, evaluated when the failing command has returned
FailState == (pc = "idle" /\ err = "stmt-failed" /\ crashes = MaxCrash) =>
               LET ff == c.fail[1] IN
                 /\ (c.mode = "all") => (dj = startj /\ dr = startr)
                 /\ (c.mode # "all" /\ ModeFor(ff) = "file") => (dj = lastdone.j /\ dr = lastdone.r)
                 /\ (c.mode # "all" /\ ModeFor(ff) = "none") =>
                       /\ dj = lastdone.j \o [k \in 1..(c.fail[2] - 1) |-> <<ff, k>>]
                       /\ dr[ff].exists /\ dr[ff].applied = c.fail[2] - 1 /\ dr[ff].err
                       /\ \A g \in Files \ {ff} : dr[g] = lastdone.r[g]
DryRunNoChange == c.dry => (dj = <<>> /\ \A ff \in Files : dr[ff] = NoRev)
AllDone == \A ff \in Files : DoneD(ff)
Complete == (pc = "idle" /\ AllDone) => \A ff \in Files : \A ii \in 1..NS(ff) : Cnt(ff, ii) >= 1
\* after a failure was fixed / after crashes, re-running the same command completes the migration
Recovery == <>[](pc = "idle" /\ (Conflict \/ c.dry \/ AllDone))
====
