---- MODULE ColCatalogTrace ----
\* C->S for the column level of C17 (MySQL / PostgreSQL, no engine): the column clauses of real plans - and of their reverse statements
\* in reverse order when the plan is reported reversible - are interpreted by ColCatalog.tla one after the other; every clause must be
\* acceptable, every statement must leave well-formed columns, and the scenario must end in the wanted columns (the desired ones after
\* up, the original ones after up and down).  A scenario that goes wrong is recorded as <<scenario, reason, line>> and skipped.
EXTENDS ColCatalog, Json, Sequences
CONSTANT TraceFile
Trace == ndJsonDeserialize(TraceFile)
VARIABLES l, viol, cid, want, wantidx, dead, dia
tvars == <<cols, idxs, l, viol, cid, want, wantidx, dead, dia>>
Ev == Trace[l]
Is(e) == l <= Len(Trace) /\ Ev.ev = e /\ l' = l + 1
K(s) == <<s[1], s[2], s[3], s[4], s[5], s[6]>>
KSet(s) == { K(s[i]) : i \in DOMAIN s }
KI(s) == <<s[1], s[2], [i \in DOMAIN s[3] |-> <<s[3][i][1], s[3][i][2]>>], s[4]>>
KISet(s) == { KI(s[i]) : i \in DOMAIN s }
TInit == cols = {} /\ idxs = {} /\ l = 1 /\ viol = {} /\ cid = 0 /\ want = {} /\ wantidx = {} /\ dead = FALSE /\ dia = ""
Reset == /\ Is("reset") /\ cols' = KSet(Ev.start) /\ want' = KSet(Ev.want) /\ idxs' = KISet(Ev.startidx) /\ wantidx' = KISet(Ev.wantidx)
         /\ cid' = Ev.c /\ dead' = FALSE /\ dia' = Ev.dialect /\ UNCHANGED viol
Flag(name) == viol' = IF Cardinality(viol) >= 400 THEN viol ELSE viol \cup {<<cid, name, l>>}
Act == \/ Ev.op = "add" /\ AddColumn(K(Ev.col))
       \/ Ev.op = "drop" /\ dia = "mysql" /\ DropColumnMy(Ev.col[1])
       \/ Ev.op = "drop" /\ dia # "mysql" /\ DropColumnPG(Ev.col[1])
       \/ Ev.op = "redefine" /\ Redefine(K(Ev.col))
       \/ Ev.op = "type" /\ SetType(Ev.col[1], Ev.col[2])
       \/ Ev.op = "setnn" /\ SetNotNull(Ev.col[1])
       \/ Ev.op = "dropnn" /\ DropNotNull(Ev.col[1])
       \/ Ev.op = "setdflt" /\ SetDefault(Ev.col[1], Ev.col[4])
       \/ Ev.op = "dropdflt" /\ DropDefault(Ev.col[1])
       \/ Ev.op = "dropexpr" /\ DropExpression(Ev.col[1])
       \/ Ev.op = "comment" /\ SetComment(Ev.col[1], Ev.col[6])
       \/ Ev.op = "addidx" /\ AddIndex(KI(Ev.idx))
       \/ Ev.op = "dropidx" /\ DropIndex(Ev.idx[1])
       \/ Ev.op = "addconst" /\ AddConstraint(KI(Ev.idx))
       \/ Ev.op = "dropconst" /\ DropConstraint(Ev.idx[1])
Clause == /\ Is("clause")
          /\ IF dead THEN UNCHANGED <<vars, viol, dead>>
             ELSE IF Ev.op = "unknown" THEN Flag("UninterpretedClause") /\ dead' = TRUE /\ UNCHANGED vars
             ELSE IF ENABLED Act THEN Act /\ UNCHANGED <<viol, dead>>
             ELSE Flag("ClauseRejected") /\ dead' = TRUE /\ UNCHANGED vars
          /\ UNCHANGED <<cid, want, wantidx, dia>>
StmtEnd == /\ Is("stmtend")
           /\ IF dead \/ (WellFormed /\ NamesUnique /\ IdxNamesUnique /\ IdxColumnsExist) THEN UNCHANGED <<viol, dead>> ELSE Flag("IllFormedColumn") /\ dead' = TRUE
           /\ UNCHANGED <<vars, cid, want, wantidx, dia>>
\* the differ or the planner refused: fine iff refusal was owed (a generation expression added or changed; plan not reversible)
Reject == /\ Is("reject")
          /\ IF Ev.owed \/ dead THEN UNCHANGED viol ELSE Flag("PlannerError")
          /\ dead' = TRUE /\ UNCHANGED <<vars, cid, want, wantidx, dia>>
End == /\ Is("end")
       /\ IF dead \/ (cols = want /\ idxs = wantidx) THEN UNCHANGED viol
          ELSE IF cols # want THEN Flag("WrongEndColumns") ELSE Flag("WrongEndIndexes")
       /\ UNCHANGED <<vars, cid, want, wantidx, dead, dia>>
TStep == Reset \/ Clause \/ StmtEnd \/ Reject \/ End
TNext == /\ TStep
         /\ (l' = Len(Trace) + 1) => PrintT(<<"VIOLS", ToJson(viol')>>)
TSpec == TInit /\ [][TNext]_tvars
Accepted == TLCGet("stats").diameter - 1 = Len(Trace)
====
