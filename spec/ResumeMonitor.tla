---- MODULE ResumeMonitor ----
\* Property layer of C12 at CLI level.  One observation per scenario: a file of n statements was applied up to statement k (statement k+1
\* failed, --tx-mode none), the file was then edited (and the failing statement repaired) and re-hashed, and `migrate apply` ran again.
\*   base   : statement ids of the file as partially applied (1..n)         new : statement ids after the edit
\*   jb, ja : journal (ids, in insertion order) before / after the second run, read by an independent client
\*   rb, ra : revision row before / after: [applied, total, err]            cls : outcome class of the second run
\*   same   : the database dump is byte-identical before and after the second run
\* The reference is Apply.tla's Edit semantics: the applied prefix is intact iff Len(new) >= k and new[1..k] = base[1..k].
EXTENDS Naturals, Sequences, FiniteSets, TLC, Json
CONSTANT TraceFile
Trace == ndJsonDeserialize(TraceFile)
VARIABLES l, viol
Ev == Trace[l]
Bad(name, cond) == IF cond THEN {} ELSE {<<Ev.id, name>>}
PrefixIntact(e) == Len(e.new) >= e.k /\ SubSeq(e.new, 1, e.k) = SubSeq(e.base, 1, e.k)
NewTail(e) == SubSeq(e.new, e.k + 1, Len(e.new))
Init == l = 1 /\ viol = {}
Obs == /\ l <= Len(Trace) /\ l' = l + 1
       /\ viol' = viol
            \cup Bad("FirstRunPartial", Ev.jb = SubSeq(Ev.base, 1, Ev.k) /\ Ev.rb.applied = Ev.k)
            \cup Bad("NeverCrashes", Ev.cls \notin {"panic", "signal", "other"})
            \cup Bad("Refusal", ~PrefixIntact(Ev) => (Ev.cls = "history-changed" /\ Ev.ja = Ev.jb /\ Ev.ra = Ev.rb /\ Ev.same))
            \cup Bad("NoSpuriousRefusal", PrefixIntact(Ev) => Ev.cls = "ok")
            \cup Bad("TailResume", (PrefixIntact(Ev) /\ Ev.cls = "ok") =>
                       (Ev.ja = Ev.jb \o NewTail(Ev) /\ Ev.ra.applied = Len(Ev.new) /\ Ev.ra.total = Len(Ev.new)
                        /\ (NewTail(Ev) # <<>> => ~Ev.ra.err)))     \* an empty new tail executes nothing: the old error text stays on the (complete) revision
Next == /\ Obs
        /\ (l' = Len(Trace) + 1) => PrintT(<<"VIOLS", ToJson(viol')>>)
Spec == Init /\ [][Next]_<<l, viol>>
Accepted == TLCGet("stats").diameter - 1 = Len(Trace)
====
