---- MODULE ExcludeMC ----
EXTENDS Exclude, Json, SequencesExt
CONSTANT OutFile
Globs == { <<"a">>, <<"b">>, <<"a", "b">>, <<"*">>, <<"a", "*">>, <<"?">>, <<"?", "b">>, <<"[ab]">>, <<"*", "b">> }
Sels  == { {}, {"table"}, {"column"}, {"index", "fk"}, {"index"}, {"fk"}, {"schema"}, {"check"}, {"view"} }
Segs  == { [g |-> g, sel |-> s] : g \in Globs, s \in Sels }
\* glob reference cross-check against an independent formulation (split point enumeration for a single "*")
Pats1 == { <<x>> : x \in Segs }
Pats2 == { <<[g |-> g1, sel |-> {}], y>> : g1 \in { <<"a">>, <<"*">>, <<"a","*">> }, y \in Segs }
Pats3 == { <<[g |-> g1, sel |-> {}], [g |-> g2, sel |-> {}], z>> : g1 \in { <<"a">>, <<"*">> }, g2 \in { <<"b">>, <<"*">>, <<"[ab]">> }, z \in Segs }
Pats == Pats1 \cup Pats2 \cup Pats3
\* an independent formulation of the glob match (single "*": enumerate the split point; otherwise position-wise) cross-checks Match
Stars(p) == Cardinality({k \in DOMAIN p : p[k] = "*"})
SymOK(h, c) == (h = "?") \/ (h = "[ab]" /\ c \in {"a", "b"}) \/ (h = c)
Match2(p, s) == IF Stars(p) = 0 THEN Len(p) = Len(s) /\ \A k \in DOMAIN p : SymOK(p[k], s[k])
                ELSE LET i == CHOOSE k \in DOMAIN p : p[k] = "*"
                         pre == SubSeq(p, 1, i - 1)  post == SubSeq(p, i + 1, Len(p)) IN
                       /\ Len(s) >= Len(pre) + Len(post)
                       /\ \A k \in DOMAIN pre : SymOK(pre[k], s[k])
                       /\ \A k \in DOMAIN post : SymOK(post[k], s[Len(s) - Len(post) + k])
ASSUME \A g \in Globs, n \in Names \cup {<<>>, <<"b", "a">>, <<"a", "a", "b">>} : Stars(g) <= 1 => (Match(g, n) <=> Match2(g, n))
ASSUME PrintT(<<"STATS", Cardinality(Pats), Cardinality(Res)>>)
ASSUME \A P \in { {p} : p \in Pats } : Expect(P).absent \cap Expect(P).present = {}
\* sets of two patterns (an exclusion is the union of what each pattern excludes)
Small == { <<[g |-> <<"a">>, sel |-> {}], [g |-> g2, sel |-> s]>> : g2 \in { <<"a">>, <<"*">>, <<"?", "b">> }, s \in { {}, {"table"} } }
           \cup { <<[g |-> <<"*">>, sel |-> {}], [g |-> <<"b">>, sel |-> {}], [g |-> g3, sel |-> s]>> : g3 \in { <<"a">>, <<"*">> }, s \in { {}, {"index", "fk"}, {"column"} } }
Sets2 == { {p, q} : p \in Small, q \in Small }
ASSUME \A P \in Sets2 : Expect(P).absent = UNION { Expect({p}).absent : p \in P }
ASSUME ndJsonSerialize(OutFile, SetToSeq({ [ps |-> <<p>>, want |-> Expect({p})] : p \in Pats } \cup { [ps |-> SetToSeq(P), want |-> Expect(P)] : P \in Sets2 }))
====
