---- MODULE DirSumTrace ----
\* C->S for C06: observations of concrete directories (abstracted by the harness's own, independent parsers of the
\* directory listing, the `atlas:sum ignore` rule and the atlas.sum format) must get the Validate outcome that
\* DirSum's reference prescribes.  Concrete representation: files = sequence of [n, c] in name order (c = "ign" for an
\* ignored file), sum = [has, fmt, totalok, entries]; an entry's hash is either junk or the chain it decodes to.
EXTENDS Naturals, Sequences, FiniteSets, TLC, Json
CONSTANT TraceFile
Trace == ndJsonDeserialize(TraceFile)
VARIABLES l, viol
Ev == Trace[l]

\* the reference, on the concrete representation (same definition as DirSum!Computed / Outcome)
Hashed(F) == { k \in DOMAIN F : F[k].c # "ign" }
RECURSIVE SeqOf(_, _)
SeqOf(S, F) == IF S = {} THEN <<>> ELSE LET k == CHOOSE x \in S : \A y \in S : x <= y IN
                 <<[n |-> F[k].n, junk |-> FALSE, h |-> SubSeq(F, 1, k)]>> \o SeqOf(S \ {k}, F)
Computed(F) == SeqOf(Hashed(F), F)
Outcome(F, s) ==
  IF ~s.has THEN (IF F = <<>> THEN "ok" ELSE "notfound")
  ELSE IF ~s.fmt THEN "format"
  ELSE IF ~s.totalok THEN "mismatch"
  ELSE IF s.entries # Computed(F) THEN "mismatch"
  ELSE "ok"

Init == l = 1 /\ viol = {}
Obs == /\ l <= Len(Trace) /\ l' = l + 1
       \* ... and an observation taken right after `migrate hash` must be "ok" whatever the directory looked like before (DirSum!WritersValid)
       /\ viol' = IF Ev.out = Outcome(Ev.files, Ev.sum) /\ (Ev.writer => Ev.out = "ok") THEN viol
                  ELSE viol \cup {<<Ev.id, Ev.c, IF Ev.writer THEN "ok" ELSE Outcome(Ev.files, Ev.sum), Ev.out>>}
Next == /\ Obs
        /\ (l' = Len(Trace) + 1) => PrintT(<<"VIOLS", ToJson(viol')>>)
Spec == Init /\ [][Next]_<<l, viol>>
Accepted == TLCGet("stats").diameter - 1 = Len(Trace)
====
