---- MODULE PlanCatalogTrace ----
\* C->S for C04 / C16 / (catalogue part of) C17: the statements of real plans (MySQL and PostgreSQL planners), tokenised by the
\* harness, must be consumable by PlanCatalog.tla one after the other, keep its invariants and end in the wanted catalogue.
\* A plan that cannot be consumed is recorded as <<scenario, reason>> and the validation skips to the next scenario.
EXTENDS PlanCatalog, Json
CONSTANT TraceFile
Trace == ndJsonDeserialize(TraceFile)
VARIABLES l, viol, cid, want, req, scope, dead, dia
tvars == <<cvars, l, viol, cid, want, req, scope, dead, dia>>
Ev == Trace[l]
Is(e) == l <= Len(Trace) /\ Ev.ev = e /\ l' = l + 1
ToSet(s) == { s[k] : k \in DOMAIN s }
ToChecks(s) == { <<s[k][1], s[k][2]>> : k \in DOMAIN s }
FKSet(s) == { <<s[k][1], s[k][2], s[k][3], s[k][4], [i \in DOMAIN s[k][5] |-> s[k][5][i]]>> : k \in DOMAIN s }

TInit == /\ Start({}, {}) /\ l = 1 /\ viol = {} /\ cid = 0 /\ want = [tables |-> {}, fks |-> {}] /\ req = "none" /\ scope = "" /\ dead = FALSE /\ dia = ""
Reset == /\ Is("reset")
         /\ tables' = ToSet(Ev.start.tables) /\ fks' = FKSet(Ev.start.fks) /\ checks' = {}
         /\ created' = [t \in Tables |-> 0] /\ dropped' = [t \in Tables |-> 0]
         /\ cid' = Ev.c /\ want' = [tables |-> ToSet(Ev.want.tables), fks |-> FKSet(Ev.want.fks)] /\ req' = Ev.req /\ scope' = Ev.schema /\ dead' = FALSE /\ dia' = Ev.dialect
         /\ UNCHANGED viol
\* C16: the qualifiers a statement carries.  req = "none": no qualifier requested on a schema-scoped plan -> no qualifier at all;
\* req = "": explicitly empty -> none; otherwise exactly the requested one; the scoped schema's own name never appears.
QualOK == LET q == ToSet(Ev.quals) IN
            /\ (req \in {"none", ""} => q \subseteq {""})
            /\ (req \notin {"none", "", "realm"} => q \subseteq {req})
            /\ (req # "realm" => ~Ev.mentions)
Flag(name) == viol' = IF Cardinality(viol) >= 400 THEN viol ELSE viol \cup {<<cid, name, l>>}
Consume(act, name) ==
  IF dead THEN UNCHANGED <<cvars, viol, dead>>
  ELSE IF ~QualOK THEN /\ Flag("Qualifier") /\ dead' = TRUE /\ UNCHANGED cvars
  ELSE IF ENABLED act THEN act /\ UNCHANGED <<viol, dead>>
  ELSE /\ Flag(name) /\ dead' = TRUE /\ UNCHANGED cvars
TCreate == /\ Is("create") /\ Consume(CreateTable(Ev.t, FKSet(Ev.inline)), "CreateRejected")
           /\ UNCHANGED <<cid, want, req, scope, dia>>
TAddFK  == /\ Is("addfk") /\ Consume(AddFK(Ev.t, Ev.p, Ev.n, Ev.d, [i \in DOMAIN Ev.cols |-> Ev.cols[i]]), "AddFKRejected") /\ UNCHANGED <<cid, want, req, scope, dia>>
TDropFK == /\ Is("dropfk") /\ Consume(DropFK(Ev.t, Ev.n), "DropFKRejected") /\ UNCHANGED <<cid, want, req, scope, dia>>
TDrop   == /\ Is("drop") /\ Consume(DropTable(Ev.t), "DropRejected") /\ UNCHANGED <<cid, want, req, scope, dia>>
TAddChk == /\ Is("addcheck") /\ Consume(AddCheck(Ev.t, Ev.n), "AddCheckRejected") /\ UNCHANGED <<cid, want, req, scope, dia>>
TDropChk == /\ Is("dropcheck") /\ Consume(DropCheck(Ev.t, Ev.n), "DropCheckRejected") /\ UNCHANGED <<cid, want, req, scope, dia>>
TAddIdx == /\ Is("addindex") /\ Consume(AddIndex(Ev.t, Ev.k), "AddIndexRejected") /\ UNCHANGED <<cid, want, req, scope, dia>>
TDropCol == /\ Is("dropcol")
            /\ Consume(IF dia = "mysql" THEN DropColumnMy(Ev.t, Ev.col) ELSE DropColumnPG(Ev.t, Ev.col), "DropColumnRejected")
            /\ UNCHANGED <<cid, want, req, scope, dia>>
TOther  == /\ Is("other") /\ Consume(Other(Ev.t), "OtherOnMissingTable") /\ UNCHANGED <<cid, want, req, scope, dia>>
\* C16: a statement checked for its qualifiers only
TQual   == /\ Is("qstmt")
           /\ IF dead \/ QualOK THEN UNCHANGED <<viol, dead>> ELSE Flag("Qualifier") /\ dead' = TRUE
           /\ UNCHANGED <<cvars, cid, want, req, scope, dia>>
\* a schema-level statement (CREATE/DROP/ALTER SCHEMA) is never part of a schema-scoped plan
TSchema == /\ Is("schemastmt")
           /\ IF req = "realm" \/ dead THEN UNCHANGED <<viol, dead>> ELSE Flag("SchemaStatementInScopedPlan") /\ dead' = TRUE
           /\ UNCHANGED <<cvars, cid, want, req, scope, dia>>
\* the planner refused the change set: fine iff refusal was owed (changes spanning two schemas / a schema-level change)
TReject == /\ Is("reject")
           /\ IF Ev.owed \/ dead THEN UNCHANGED viol ELSE Flag("PlannerError")
           /\ dead' = TRUE /\ UNCHANGED <<cvars, cid, want, req, scope, dia>>
TEnd == /\ Is("end")
        /\ IF dead THEN UNCHANGED viol
           ELSE viol' = viol
                  \cup (IF tables = want.tables /\ fks = want.fks THEN {} ELSE {<<cid, "WrongEndCatalogue", l>>})
                  \cup (IF ~Ev.checksmatter \/ checks = ToChecks(Ev.wantchecks) THEN {} ELSE {<<cid, "WrongEndChecks", l>>})
                  \cup (IF Once THEN {} ELSE {<<cid, "NotExactlyOnce", l>>})
                  \cup (IF Ev.mustreject THEN {<<cid, "CrossSchemaChangesPlanned", l>>} ELSE {})
        /\ UNCHANGED <<cvars, cid, want, req, scope, dead, dia>>
TStep == Reset \/ TQual \/ TAddChk \/ TDropChk \/ TCreate \/ TAddFK \/ TDropFK \/ TDrop \/ TAddIdx \/ TDropCol \/ TOther \/ TSchema \/ TReject \/ TEnd
TNext == /\ TStep
         /\ (l' = Len(Trace) + 1) => PrintT(<<"VIOLS", ToJson(viol')>>)
TSpec == TInit /\ [][TNext]_tvars
TInv == dead \/ FKTargetsExist
Accepted == TLCGet("stats").diameter - 1 = Len(Trace)
====
