---- MODULE Lexer ----
\* Reference model of migrate.Scanner (sql/migrate/lex.go: stmt / skipQuote / comment / emit) over a symbol alphabet,
\* default ";" delimiter, options BackslashEscapes and HashComments.  Symbols: sq ' dq " bt ` sc ; da - sl / st * nl \n
\* sp space lp ( rp ) x letter bs \ ha #.   Serves C08 (total / ordered partition / positions) and C07 (QuoteSafety).
\* Rules taken from the code: a comment marker without terminator is not a comment; a comment at the start of a statement
\* is detached from it; quotes are skipped up to the closing quote (doubling works because the second quote re-opens).
EXTENDS Naturals, Sequences, FiniteSets, TLC
Sym == {"sq", "dq", "bt", "sc", "da", "sl", "st", "nl", "sp", "lp", "rp", "x", "bs", "ha"}
Space(s) == s \in {"nl", "sp"}

\* index of the first occurrence of symbol pair/single at or after i, 0 if none
RECURSIVE Find1(_, _, _)
Find1(inp, i, a) == IF i > Len(inp) THEN 0 ELSE IF inp[i] = a THEN i ELSE Find1(inp, i + 1, a)
RECURSIVE Find2(_, _, _, _)
Find2(inp, i, a, b) == IF i + 1 > Len(inp) THEN 0 ELSE IF inp[i] = a /\ inp[i + 1] = b THEN i ELSE Find2(inp, i + 1, a, b)
\* skipQuote: i is the index right after the opening quote; returns index after the closing quote, 0 if unclosed
RECURSIVE SkipQuote(_, _, _, _)
SkipQuote(inp, i, q, esc) == IF i > Len(inp) THEN 0
                             ELSE IF inp[i] = "bs" /\ esc THEN SkipQuote(inp, i + 2, q, esc)
                             ELSE IF inp[i] = q THEN i + 1
                             ELSE SkipQuote(inp, i + 1, q, esc)
RECURSIVE SkipSp(_, _)
SkipSp(inp, i) == IF i <= Len(inp) /\ Space(inp[i]) THEN SkipSp(inp, i + 1) ELSE i
RECURSIVE TrimR(_, _, _)
TrimR(inp, from, to) == IF to >= from /\ Space(inp[to]) THEN TrimR(inp, from, to - 1) ELSE to

\* A statement [from..to] is reported as <<pos (0-based), length after right-trim>>.
Emit(inp, from, to) == <<from - 1, TrimR(inp, from, to) - from + 1>>

\* st = [i: next index, from: start of current statement, depth, out: emitted so far]
RECURSIVE Run(_, _, _)
Run(inp, o, st) ==
  LET i == st.i  atStart == (i = st.from) IN
  IF i > Len(inp) THEN
       IF st.depth > 0 THEN [err |-> TRUE, out |-> <<>>]
       ELSE IF i > st.from THEN [err |-> FALSE, out |-> Append(st.out, Emit(inp, st.from, Len(inp)))]
       ELSE [err |-> FALSE, out |-> st.out]
  ELSE LET c == inp[i] IN
    CASE c = "lp" -> Run(inp, o, [st EXCEPT !.i = i + 1, !.depth = @ + 1])
      [] c = "rp" -> IF st.depth = 0 THEN [err |-> TRUE, out |-> <<>>] ELSE Run(inp, o, [st EXCEPT !.i = i + 1, !.depth = @ - 1])
      [] c \in {"sq", "dq", "bt"} ->
           LET j == SkipQuote(inp, i + 1, c, o.bsesc) IN
             IF j = 0 THEN [err |-> TRUE, out |-> <<>>] ELSE Run(inp, o, [st EXCEPT !.i = j])
      [] c = "sc" /\ st.depth = 0 ->
           LET nf == SkipSp(inp, i + 1) IN
             Run(inp, o, [i |-> nf, from |-> nf, depth |-> 0, out |-> Append(st.out, Emit(inp, st.from, i))])
      [] c = "ha" /\ o.hash ->
           LET e == Find1(inp, i + 1, "nl") IN
             IF e = 0 THEN Run(inp, o, [st EXCEPT !.i = i + 1])
             ELSE IF atStart THEN LET nf == SkipSp(inp, e + 1) IN Run(inp, o, [st EXCEPT !.i = nf, !.from = nf])
             ELSE Run(inp, o, [st EXCEPT !.i = e + 1])
      [] c = "da" /\ i < Len(inp) /\ inp[i + 1] = "da" ->
           LET e == Find1(inp, i + 2, "nl") IN
             IF e = 0 THEN Run(inp, o, [st EXCEPT !.i = i + 2])
             ELSE IF atStart THEN LET nf == SkipSp(inp, e + 1) IN Run(inp, o, [st EXCEPT !.i = nf, !.from = nf])
             ELSE Run(inp, o, [st EXCEPT !.i = e + 1])
      [] c = "sl" /\ i < Len(inp) /\ inp[i + 1] = "st" ->
           LET e == Find2(inp, i + 2, "st", "sl") IN
             IF e = 0 THEN Run(inp, o, [st EXCEPT !.i = i + 2])
             ELSE IF atStart THEN LET nf == SkipSp(inp, e + 2) IN Run(inp, o, [st EXCEPT !.i = nf, !.from = nf])
             ELSE Run(inp, o, [st EXCEPT !.i = e + 2])
      [] OTHER -> Run(inp, o, [st EXCEPT !.i = i + 1])
Scan(inp, o) == LET s0 == SkipSp(inp, 1) IN Run(inp, o, [i |-> s0, from |-> s0, depth |-> 0, out |-> <<>>])

\* ---- model properties (C08): partition / losslessness -----------------------------------
Covered(res, k) == \E n \in DOMAIN res.out : res.out[n][1] + 1 <= k /\ k <= res.out[n][1] + res.out[n][2]
Ordered(res) == \A n \in DOMAIN res.out : /\ res.out[n][2] >= 1
                                          /\ (n > 1 => res.out[n - 1][1] + res.out[n - 1][2] <= res.out[n][1])
\* ---- QuoteSafety (C07): a properly quoted literal never ends a statement inside it -------
Quote(w, q, bsesc) == LET RECURSIVE Esc(_)
                          Esc(k) == IF k > Len(w) THEN <<>>
                                    ELSE (IF w[k] = q THEN <<q, q>> ELSE IF w[k] = "bs" /\ bsesc THEN <<"bs", "bs">> ELSE <<w[k]>>) \o Esc(k + 1)
                      IN <<q>> \o Esc(1) \o <<q>>
====
