---- MODULE Apply ----
\* The migration executor at API level: Executor.ExecuteN / Execute of sql/migrate/migrate.go
\* (no transactions; the stores are written directly).  Serves C09 (order / once / resume after any
\* statement or revision-write failure) and C12 (resuming a partially applied file that was edited).
\*
\* One action per critical section of Execute:
\*   RunStart     ExecuteN: Pending(), truncation to n files
\*   FileStart    rrw.ReadRevision / new Revision (Total = number of statements)
\*   WStart       "save once to mark as started"
\*   CheckPartial the PartialHashes loop (history-changed refusal), refresh of Total for a resumed file
\*   Exec         drv.ExecContext(stmt)
\*   WProg        writeRevision after a successful statement
\*   Finish       PartialHashes = nil + the deferred write of the completed revision
\*   Defer        the deferred write after a statement failure / refusal (skipped after a WriteRevisionError)
\* Environment (between runs): edits of a file's statement list (C12), faults (budget).
\*
\* A statement is a token (a natural number): its identity.  SHA-256 is abstracted as injective, so the
\* cumulative hash of the first k statements *is* the sequence of their tokens.
EXTENDS Naturals, Sequences, FiniteSets, TLC

CONSTANTS Shapes,      \* set of initial directories: each a sequence (file -> sequence of tokens)
          MaxFaults, MaxRuns, MaxEdits,
          NChoices     \* admissible arguments n of ExecuteN (0 = all)

NoRev == [exists |-> FALSE, applied |-> 0, total |-> 0, err |-> FALSE, partial |-> <<>>]

VARIABLES dirv,      \* file -> sequence of tokens (the directory, already hashed)
          journal,   \* sequence of <<f, tok>>: effects in the database
          revs,      \* file -> stored revision
          pc, f, i,  \* control state of the executor
          r,         \* in-memory revision of the file being executed
          stmts,     \* the statements scanned from the file when Execute started
          left,      \* files still to run in this ExecuteN (0 = unlimited)
          budget,    \* remaining faults
          runs, edits, fresh,
          lost,      \* set-like function <<f,tok>> -> number of failed progress writes right after it executed
          wfault,    \* TRUE iff a revision write ever failed
          runErr,    \* class of the last run's result: "none" | "ok" | "stmt" | "write" | "history-changed" | "nopending"
          snapJ, snapR, \* journal / revision table when the current run started
          ran        \* files completed by the current run
vars == <<dirv, journal, revs, pc, f, i, r, stmts, left, budget, runs, edits, fresh, lost, wfault, runErr, snapJ, snapR, ran>>

Files       == DOMAIN dirv
Toks(ff)    == { journal[k][2] : k \in { j \in DOMAIN journal : journal[j][1] = ff } }
Cnt(ff, t)  == Cardinality({k \in DOMAIN journal : journal[k] = <<ff, t>>})
Done(ff)    == revs[ff].exists /\ revs[ff].applied = revs[ff].total
PendingF    == {ff \in Files : ~Done(ff)}
Min(S)      == CHOOSE x \in S : \A y \in S : x <= y
Fail        == IF budget > 0 THEN BOOLEAN ELSE {FALSE}
Lost(ff, t) == IF <<ff, t>> \in DOMAIN lost THEN lost[<<ff, t>>] ELSE 0
Mismatch(rv, ss) == rv.applied > 0 /\ (rv.applied > Len(ss) \/ SubSeq(ss, 1, rv.applied) # rv.partial)

Init == /\ dirv \in Shapes
        /\ journal = <<>> /\ revs = [ff \in DOMAIN dirv |-> NoRev]
        /\ pc = "idle" /\ f = 0 /\ i = 0 /\ r = NoRev /\ stmts = <<>> /\ left = 0
        /\ budget = MaxFaults /\ runs = 0 /\ edits = 0 /\ fresh = 100
        /\ lost = <<>> /\ wfault = FALSE /\ runErr = "none"
        /\ snapJ = <<>> /\ snapR = revs /\ ran = {}

\* ExecuteN(n): Pending + truncation.
RunStart(n) ==
  /\ pc = "idle" /\ runs < MaxRuns
  /\ runs' = runs + 1 /\ snapJ' = journal /\ snapR' = revs /\ ran' = {}
  /\ IF PendingF = {}
       THEN /\ runErr' = "nopending" /\ UNCHANGED <<pc, f, left>>
       ELSE /\ runErr' = "none" /\ f' = Min(PendingF) /\ pc' = "file" /\ left' = n
  /\ UNCHANGED <<dirv, journal, revs, i, r, stmts, budget, edits, fresh, lost, wfault>>

\* ReadRevision / new revision.
FileStart ==
  /\ pc = "file"
  /\ stmts' = dirv[f]
  /\ r' = IF revs[f].exists THEN revs[f]
          ELSE [exists |-> TRUE, applied |-> 0, total |-> Len(dirv[f]), err |-> FALSE, partial |-> <<>>]
  /\ pc' = "wstart"
  /\ UNCHANGED <<dirv, journal, revs, f, i, left, budget, runs, edits, fresh, lost, wfault, runErr, snapJ, snapR, ran>>

\* ReadRevision itself fails (third fault class): Execute returns before anything is written or executed.
ReadFail ==
  /\ pc = "file" /\ budget > 0
  /\ budget' = budget - 1 /\ runErr' = "read" /\ pc' = "idle"
  /\ UNCHANGED <<dirv, journal, revs, f, i, r, stmts, left, runs, edits, fresh, lost, wfault, snapJ, snapR, ran>>

\* "Save once to mark as started".
WStart ==
  /\ pc = "wstart"
  /\ \E fail \in Fail :
       IF fail THEN /\ budget' = budget - 1 /\ wfault' = TRUE /\ runErr' = "write"
                    /\ pc' = "idle" /\ UNCHANGED revs
               ELSE /\ revs' = [revs EXCEPT ![f] = r] /\ pc' = "check"
                    /\ UNCHANGED <<budget, wfault, runErr>>
  /\ UNCHANGED <<dirv, journal, f, i, r, stmts, left, runs, edits, fresh, lost, snapJ, snapR, ran>>

\* The PartialHashes loop.  A resumed file whose applied prefix is intact continues with the *current* file:
\* its revision describes the file as it is now (Total = number of statements now).
CheckPartial ==
  /\ pc = "check"
  /\ IF Mismatch(r, stmts)
       THEN /\ pc' = "defer" /\ runErr' = "history-changed" /\ UNCHANGED <<r, i>>
       ELSE /\ r' = [r EXCEPT !.total = Len(stmts)] /\ i' = r.applied + 1 /\ pc' = "exec" /\ UNCHANGED runErr
  /\ UNCHANGED <<dirv, journal, revs, f, stmts, left, budget, runs, edits, fresh, lost, wfault, snapJ, snapR, ran>>

\* drv.ExecContext(stmt i)
Exec ==
  /\ pc = "exec" /\ i <= Len(stmts)
  /\ \E fail \in Fail :
       IF fail THEN /\ budget' = budget - 1 /\ r' = [r EXCEPT !.err = TRUE]
                    /\ pc' = "defer" /\ runErr' = "stmt" /\ UNCHANGED journal
               ELSE /\ journal' = Append(journal, <<f, stmts[i]>>)
                    /\ r' = [r EXCEPT !.applied = @ + 1, !.err = FALSE, !.partial = Append(@, stmts[i])]
                    /\ pc' = "wprog" /\ UNCHANGED <<budget, runErr>>
  /\ UNCHANGED <<dirv, revs, f, i, stmts, left, runs, edits, fresh, lost, wfault, snapJ, snapR, ran>>

\* writeRevision after a successful statement.
WProg ==
  /\ pc = "wprog"
  /\ \E fail \in Fail :
       IF fail THEN /\ budget' = budget - 1 /\ wfault' = TRUE /\ runErr' = "write"
                    /\ lost' = (<<f, stmts[i]>> :> (Lost(f, stmts[i]) + 1)) @@ lost
                    /\ pc' = "idle" /\ UNCHANGED <<revs, i>>
               ELSE /\ revs' = [revs EXCEPT ![f] = r] /\ i' = i + 1 /\ pc' = "exec"
                    /\ UNCHANGED <<budget, wfault, runErr, lost>>
  /\ UNCHANGED <<dirv, journal, f, r, stmts, left, runs, edits, fresh, snapJ, snapR, ran>>

\* Loop finished: PartialHashes = nil, then the deferred write of the completed revision.
Finish ==
  /\ pc = "exec" /\ i > Len(stmts)
  /\ LET rf == [r EXCEPT !.partial = <<>>] IN
     /\ r' = rf
     /\ \E fail \in Fail :
          IF fail THEN /\ budget' = budget - 1 /\ wfault' = TRUE /\ runErr' = "write"
                       /\ pc' = "idle" /\ UNCHANGED <<revs, f, left, ran>>
                  ELSE /\ revs' = [revs EXCEPT ![f] = rf] /\ ran' = ran \cup {f}
                       /\ LET rest == {ff \in Files : ff > f} IN
                            IF rest # {} /\ left # 1
                              THEN pc' = "file" /\ f' = Min(rest) /\ left' = (IF left = 0 THEN 0 ELSE left - 1) /\ UNCHANGED runErr
                              ELSE pc' = "idle" /\ runErr' = "ok" /\ UNCHANGED <<f, left>>
                       /\ UNCHANGED <<budget, wfault>>
  /\ UNCHANGED <<dirv, journal, i, stmts, runs, edits, fresh, lost, snapJ, snapR>>

\* Deferred write after a failed statement (records the error) or after a refusal; the run ends either way.
Defer ==
  /\ pc = "defer"
  /\ \E fail \in Fail :
       IF fail THEN /\ budget' = budget - 1 /\ wfault' = TRUE /\ UNCHANGED revs
               ELSE /\ revs' = [revs EXCEPT ![f] = r] /\ UNCHANGED <<budget, wfault>>
  /\ pc' = "idle"
  /\ UNCHANGED <<dirv, journal, f, i, r, stmts, left, runs, edits, fresh, lost, runErr, snapJ, snapR, ran>>

\* ---- environment: edits between runs (C12) -----------------------------------------------------------
SetFile(ff, s) == /\ dirv' = [dirv EXCEPT ![ff] = s] /\ edits' = edits + 1
                  /\ UNCHANGED <<journal, revs, pc, f, i, r, stmts, left, budget, runs, lost, wfault, runErr, snapJ, snapR, ran>>
RemoveAt(s, j) == SubSeq(s, 1, j - 1) \o SubSeq(s, j + 1, Len(s))
InsertAt(s, j, t) == SubSeq(s, 1, j - 1) \o <<t>> \o SubSeq(s, j, Len(s))
EditChange(ff, j)   == /\ j \in DOMAIN dirv[ff] /\ SetFile(ff, [dirv[ff] EXCEPT ![j] = fresh]) /\ fresh' = fresh + 1
EditInsert(ff, j)   == /\ j \in 1..(Len(dirv[ff]) + 1) /\ SetFile(ff, InsertAt(dirv[ff], j, fresh)) /\ fresh' = fresh + 1
EditDelete(ff, j)   == /\ j \in DOMAIN dirv[ff] /\ SetFile(ff, RemoveAt(dirv[ff], j)) /\ UNCHANGED fresh
EditSwap(ff, j)     == /\ j \in 1..(Len(dirv[ff]) - 1)
                       /\ SetFile(ff, [dirv[ff] EXCEPT ![j] = dirv[ff][j + 1], ![j + 1] = dirv[ff][j]]) /\ UNCHANGED fresh
EditTruncate(ff, m) == /\ m \in 0..(Len(dirv[ff]) - 1) /\ SetFile(ff, SubSeq(dirv[ff], 1, m)) /\ UNCHANGED fresh
Edit == /\ pc = "idle" /\ edits < MaxEdits
        /\ \E ff \in PendingF :
             \/ \E j \in 1..(Len(dirv[ff]) + 1) : EditChange(ff, j) \/ EditInsert(ff, j) \/ EditDelete(ff, j) \/ EditSwap(ff, j)
             \/ \E m \in 0..Len(dirv[ff]) : EditTruncate(ff, m)

Step == FileStart \/ ReadFail \/ WStart \/ CheckPartial \/ Exec \/ WProg \/ Finish \/ Defer
Next == (\E n \in NChoices : RunStart(n)) \/ Step \/ Edit
Spec == Init /\ [][Next]_vars

\* ---- properties -------------------------------------------------------------------------------------
TypeOK == pc \in {"idle", "file", "wstart", "check", "exec", "wprog", "defer"}

\* C09: the history never claims more statements than were really executed.
RevNotAhead == \A ff \in Files : revs[ff].applied <= Cardinality(Toks(ff))
               /\ \A k \in DOMAIN revs[ff].partial : revs[ff].partial[k] \in Toks(ff)
\* C09 (no edits): files in version order, statements in file order, none skipped.
FirstIdx(e) == Min({k \in DOMAIN journal : journal[k] = e})
Pos(ff, t)  == CHOOSE k \in DOMAIN dirv[ff] : dirv[ff][k] = t
InOrder == edits = 0 =>
             \A a, b \in DOMAIN journal :
               (a < b /\ FirstIdx(journal[a]) = a /\ FirstIdx(journal[b]) = b)
                 => (journal[a][1] < journal[b][1]
                       \/ (journal[a][1] = journal[b][1] /\ Pos(journal[a][1], journal[a][2]) < Pos(journal[b][1], journal[b][2])))
NoGap == edits = 0 =>
           \A k \in DOMAIN journal : LET ff == journal[k][1]  p == Pos(ff, journal[k][2]) IN
              /\ \A q \in 1..(p - 1) : Cnt(ff, dirv[ff][q]) >= 1
              /\ \A gg \in 1..(ff - 1) : \A q \in DOMAIN dirv[gg] : Cnt(gg, dirv[gg][q]) >= 1
\* none repeated except the single statement whose own bookkeeping write failed
RepeatBound == edits = 0 => \A ff \in Files : \A q \in DOMAIN dirv[ff] : Cnt(ff, dirv[ff][q]) <= 1 + Lost(ff, dirv[ff][q])
ExactlyOnce == (edits = 0 /\ ~wfault) => \A ff \in Files : \A q \in DOMAIN dirv[ff] : Cnt(ff, dirv[ff][q]) <= 1
\* a run that ends without error completed every file it was asked to run
CleanRunCompletes ==
  (pc = "idle" /\ runErr = "ok") =>
     /\ \A ff \in ran : revs[ff].applied = Len(dirv[ff]) /\ revs[ff].total = Len(dirv[ff]) /\ revs[ff].partial = <<>>
                        /\ (Len(dirv[ff]) > snapR[ff].applied => ~revs[ff].err)   \* the error is cleared by the first successful statement
                        /\ \A q \in DOMAIN dirv[ff] : Cnt(ff, dirv[ff][q]) >= 1
     /\ (left = 0 => PendingF = {})
\* C12 Refusal: a history-changed run executes nothing and leaves the history untouched
Refusal == (pc = "idle" /\ runErr = "history-changed") => journal = snapJ /\ (wfault \/ revs = snapR)
\* C12 TailResume: when the applied prefix is intact the run is not refused (checked at the decision point)
NoSpuriousRefusal == (pc = "defer" /\ runErr = "history-changed") => Mismatch(r, stmts)
\* in-memory progress never runs ahead of the database either
MemNotAhead == pc \in {"exec", "wprog", "defer"} => r.applied <= Cardinality(Toks(f))
\* C09 liveness ("resumes after any failure"): faults are finite, the operator keeps re-running the whole directory (n = 0) and
\* the executor's own steps are not starved; then every file is eventually, and for good, completely applied.  Checked in
\* cfg/Apply.live.cfg with NChoices = {0} and MaxRuns = MaxFaults + 1: a run either absorbs a fault or completes the directory.
LiveSpec == Spec /\ WF_vars(Step) /\ WF_vars(RunStart(0))
Resumes  == <>[](PendingF = {})
\* the safety half of the same argument, usable on any configuration: a run that ended with an error consumed a fault
RunEndsInFaultOrOk == (pc = "idle" /\ edits = 0 /\ runs > 0) => (runErr \in {"ok", "nopending"} \/ budget < MaxFaults)
====
