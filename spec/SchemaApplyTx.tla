---- MODULE SchemaApplyTx ----
\* `atlas schema apply` execution protocol (cmdapi.applyChanges): in the default transaction mode the whole plan runs in
\* one transaction; a failing statement rolls everything back; --dry-run executes nothing; --tx-mode none auto-commits.
\* C13: "schema apply in its default mode is all-or-nothing, and --dry-run leaves everything unchanged".
EXTENDS Naturals, Sequences, FiniteSets, TLC
CONSTANTS MaxStmts
VARIABLES n, failAt, mode, dry,   \* the plan: n statements, statement failAt fails (0 = none)
          db, tx, pc, i, rc
vars == <<n, failAt, mode, dry, db, tx, pc, i, rc>>
Init == /\ n \in 1..MaxStmts /\ failAt \in 0..MaxStmts /\ failAt <= n /\ mode \in {"file", "none"} /\ dry \in BOOLEAN
        /\ db = {} /\ tx = {} /\ pc = "start" /\ i = 1 /\ rc = "running"
Begin == /\ pc = "start"
         /\ IF dry THEN pc' = "done" /\ rc' = "ok" ELSE pc' = "exec" /\ UNCHANGED rc
         /\ UNCHANGED <<n, failAt, mode, dry, db, tx, i>>
Exec == /\ pc = "exec" /\ i <= n /\ i # failAt
        /\ IF mode = "file" THEN tx' = tx \cup {i} /\ UNCHANGED db ELSE db' = db \cup {i} /\ UNCHANGED tx
        /\ i' = i + 1 /\ UNCHANGED <<n, failAt, mode, dry, pc, rc>>
Fail == /\ pc = "exec" /\ i = failAt
        /\ tx' = {} /\ pc' = "done" /\ rc' = "error"          \* tx.Rollback()
        /\ UNCHANGED <<n, failAt, mode, dry, db, i>>
Commit == /\ pc = "exec" /\ i > n
          /\ db' = db \cup tx /\ tx' = {} /\ pc' = "done" /\ rc' = "ok"
          /\ UNCHANGED <<n, failAt, mode, dry, i>>
Next == Begin \/ Exec \/ Fail \/ Commit
Spec == Init /\ [][Next]_vars
AllOrNothing == (pc = "done" /\ mode = "file") => (db = {} \/ db = 1..n)
ErrorMeansNothing == (pc = "done" /\ mode = "file" /\ rc = "error") => db = {}
DryRunNothing == dry => db = {}
OkMeansAll == (pc = "done" /\ rc = "ok" /\ ~dry) => db = 1..n
FailureReported == (pc = "done" /\ failAt # 0 /\ ~dry) => rc = "error"
====
