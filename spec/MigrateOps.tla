---- MODULE MigrateOps ----
\* Project life-cycle at CLI level (C11: status, apply-with-count and set-version agree with the pending decision):
\* add file, fix file, apply [n], set v, status.  tx-mode file, exec-order linear, no checkpoints / baseline (those are covered
\* by Pending.tla's enumeration).  cmd/atlas/internal/cmdapi/migrate.go: migrateApplyRun, migrateSetRun, migrateStatusRun.
EXTENDS Naturals, Sequences, FiniteSets, TLC, Json, SequencesExt
CONSTANTS N, Depth
V == 1..N
NoRev == [st |-> "none", applied |-> 0, total |-> 0]
VARIABLES dir,      \* set of versions with a file
          bad,      \* versions whose file fails at its 2nd statement (until fixed)
          revs,     \* version -> revision record (st: none | exec | resolved)
          journal,  \* sequence of <<v, i>>: the journal inserts executed and committed, in order (`set` to an older version followed
                    \* by `apply` executes a file again: the journal is not a set)
          hist, steps
vars == <<dir, bad, revs, journal, hist, steps>>

Sorted(S) == SetToSortSeq(S, <)
RevVs == {v \in V : revs[v].st # "none"}
LastV == IF RevVs = {} THEN 0 ELSE CHOOSE v \in RevVs : \A w \in RevVs : w <= v
FirstV == IF RevVs = {} THEN 0 ELSE CHOOSE v \in RevVs : \A w \in RevVs : v <= w
\* linear-order pending decision (all revisions complete in file mode)
Ooo == {v \in dir : v >= FirstV /\ v < LastV /\ v \notin RevVs}
PendingV == {v \in dir : v > LastV}
Status == IF RevVs # {} /\ Ooo # {} THEN [kind |-> "nonlinear", files |-> Sorted(PendingV)]
          ELSE IF PendingV = {} THEN [kind |-> "ok", files |-> <<>>] ELSE [kind |-> "pending", files |-> Sorted(PendingV)]
Obs == [revs |-> [v \in V |-> revs[v]], journal |-> journal, status |-> Status]
Log(op) == /\ hist' = Append(hist, [op |-> op, obs |-> [revs |-> revs', journal |-> journal', dir |-> dir', status |->
                 (LET RV == {v \in V : revs'[v].st # "none"}
                      L == IF RV = {} THEN 0 ELSE CHOOSE v \in RV : \A w \in RV : w <= v
                      F == IF RV = {} THEN 0 ELSE CHOOSE v \in RV : \A w \in RV : v <= w
                      O == {v \in dir' : v >= F /\ v < L /\ v \notin RV}
                      P == {v \in dir' : v > L}
                  IN IF RV # {} /\ O # {} THEN [kind |-> "nonlinear", files |-> Sorted(P)]
                     ELSE IF P = {} THEN [kind |-> "ok", files |-> <<>>] ELSE [kind |-> "pending", files |-> Sorted(P)])]])
           /\ steps' = steps + 1

Init == dir = {} /\ bad = {} /\ revs = [v \in V |-> NoRev] /\ journal = <<>> /\ hist = <<>> /\ steps = 0
AddFile(v, b) == /\ v \notin dir /\ dir' = dir \cup {v} /\ bad' = IF b THEN bad \cup {v} ELSE bad
                 /\ UNCHANGED <<revs, journal>> /\ Log([k |-> "add", v |-> v, bad |-> b, n |-> 0])
Fix(v) == /\ v \in bad /\ bad' = bad \ {v} /\ UNCHANGED <<dir, revs, journal>> /\ Log([k |-> "fix", v |-> v, bad |-> FALSE, n |-> 0])
\* a file has three statements: the idempotent creation of the journal table and two journal inserts <<v, 1>>, <<v, 2>>.
\* apply n files (n = 0: all). Files run in order; a bad file rolls back entirely (file mode) and stops the run.
RECURSIVE RunFiles(_, _, _)
RunFiles(fs, rv, jr) == IF fs = <<>> THEN [revs |-> rv, journal |-> jr]
                        ELSE LET v == Head(fs) IN
                          IF v \in bad THEN [revs |-> rv, journal |-> jr]
                          ELSE RunFiles(Tail(fs), [rv EXCEPT ![v] = [st |-> "exec", applied |-> 3, total |-> 3]], jr \o << <<v, 1>>, <<v, 2>> >>)
Apply(n) == /\ LET st == Status IN
               IF st.kind = "pending"
               THEN LET fs == IF n = 0 \/ n >= Len(st.files) THEN st.files ELSE SubSeq(st.files, 1, n)
                        r == RunFiles(fs, revs, journal)
                    IN revs' = r.revs /\ journal' = r.journal
               ELSE UNCHANGED <<revs, journal>>
            /\ UNCHANGED <<dir, bad>> /\ Log([k |-> "apply", v |-> 0, bad |-> FALSE, n |-> n])
\* migrate set v: drop revisions above v; mark files up to v (after the last revision) as resolved
SetV(v) == /\ v \in dir
           /\ LET kept == [w \in V |-> IF w > v THEN NoRev ELSE revs[w]]
                  KV == {w \in V : kept[w].st # "none"}
                  L == IF KV = {} THEN 0 ELSE CHOOSE w \in KV : \A u \in KV : u <= w
              IN revs' = [w \in V |-> IF kept[w].st = "none" /\ w \in dir /\ w > L /\ w <= v
                                        THEN [st |-> "resolved", applied |-> 0, total |-> 0] ELSE kept[w]]
           /\ UNCHANGED <<dir, bad, journal>> /\ Log([k |-> "set", v |-> v, bad |-> FALSE, n |-> 0])
Next == /\ steps < Depth
        /\ \/ \E v \in V, b \in BOOLEAN : AddFile(v, b)
           \/ \E v \in V : Fix(v)
           \/ \E n \in 0..2 : Apply(n)
           \/ \E v \in V : SetV(v)
Spec == Init /\ [][Next]_vars
\* directed histories for a history with a gap: two files, apply, a file added out of order (or after), set to any version, apply / set again.
\* Every behaviour of this shape is enumerated (hist is part of the state) and replayed on the CLI.
GapNext == /\ steps < 6
           /\ \/ (steps < 2 /\ \E v \in V : AddFile(v, FALSE))
              \/ (steps = 2 /\ Apply(0))
              \/ (steps = 3 /\ \E v \in V : AddFile(v, FALSE))
              \/ (steps = 4 /\ \E v \in V : SetV(v))
              \/ (steps = 5 /\ (Apply(0) \/ Apply(1)))
GapSpec == Init /\ [][GapNext]_vars
EmitGap == steps = 6 => PrintT(<<"VTRACE", ToJson(hist)>>)
\* model-level agreement properties
InJ(e) == \E k \in DOMAIN journal : journal[k] = e
NeverReapplied == \A v \in V : revs[v].st = "exec" => InJ(<<v, 1>>) /\ InJ(<<v, 2>>)
TypeOK == /\ dir \subseteq V /\ bad \subseteq dir /\ \A k \in DOMAIN journal : journal[k] \in (V \X {1, 2})
          /\ \A v \in V : revs[v].st \in {"none", "exec", "resolved"} /\ (revs[v].st # "none" => v \in dir)
\* what status reports as pending is exactly what `apply` (all) would try, in that order; nothing recorded is pending; a file recorded
\* as executed is in the database (`set` to an older version forgets revisions, it does not undo their statements)
StatusAgrees == /\ \A k \in DOMAIN Status.files : Status.files[k] \in dir /\ revs[Status.files[k]].st = "none" /\ Status.files[k] > LastV
                /\ \A k \in DOMAIN Status.files : k > 1 => Status.files[k - 1] < Status.files[k]
                /\ \A v \in V : revs[v].st = "exec" => (InJ(<<v, 1>>) /\ InJ(<<v, 2>>))
                /\ \A v \in V : InJ(<<v, 1>>) <=> InJ(<<v, 2>>)       \* file mode: a file is in the database entirely or not at all
View == <<dir, bad, revs, journal>>
Emit == steps = Depth => PrintT(<<"VTRACE", ToJson(hist)>>)
====
