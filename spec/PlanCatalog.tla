---- MODULE PlanCatalog ----
\* What a database does with the statements of a plan, as far as tables and foreign keys are concerned (C04), and which
\* schema qualifiers the statements carry (C16).  Guards are the engine's acceptance rules:
\*   - a foreign key can be declared only if its parent table exists (or is the table being created itself);
\*   - a table can be dropped only when no OTHER table's live foreign key points at it;
\*   - a table is created at most once and dropped at most once.
\* A plan is valid iff this specification can consume its statements one after the other and ends in the wanted catalogue.
EXTENDS Naturals, Sequences, FiniteSets, TLC
CONSTANTS Tables          \* universe of table names
Defs == {"", "ON DELETE CASCADE"}   \* definitions explored by Next (the trace specification takes them from the statements)
VARIABLES tables,         \* existing tables
          fks,            \* live foreign keys: set of <<child, parent, name, def, columns>>; def = the rest of the definition as the
                          \* statement spells it (ON UPDATE / ON DELETE actions), "" when the statement gives none; columns = the
                          \* child's columns, a sequence of names
          created, dropped, \* how often each table was created / dropped by the plan so far
          checks          \* live CHECK constraints: set of <<table, id>> (id = constraint name, or "unnamed:<expr>")
cvars == <<tables, fks, created, dropped, checks>>

Start(T, F) == /\ tables = T /\ fks = F /\ checks = {}
               /\ created = [t \in Tables |-> 0] /\ dropped = [t \in Tables |-> 0]
Init == \E T \in SUBSET Tables : Start(T, {})

\* CREATE TABLE t ( ..., CONSTRAINT n FOREIGN KEY .. REFERENCES p, ... )
CreateTable(t, inline) ==
  /\ t \notin tables
  /\ \A k \in inline : k[1] = t /\ (k[2] \in tables \/ k[2] = t)
  /\ \A j, k \in inline : j[3] = k[3] => j = k
  /\ tables' = tables \cup {t} /\ fks' = fks \cup inline
  /\ created' = [created EXCEPT ![t] = @ + 1] /\ UNCHANGED <<dropped, checks>>
\* ALTER TABLE t ADD [CONSTRAINT n] CHECK (e)
AddCheck(t, id) == /\ t \in tables /\ <<t, id>> \notin checks /\ checks' = checks \cup {<<t, id>>} /\ UNCHANGED <<tables, fks, created, dropped>>
\* ALTER TABLE t DROP CONSTRAINT n   (only a NAMED check can be dropped by a statement)
DropCheck(t, id) == /\ <<t, id>> \in checks /\ checks' = checks \ {<<t, id>>} /\ UNCHANGED <<tables, fks, created, dropped>>
\* ALTER TABLE t ADD CONSTRAINT n FOREIGN KEY .. REFERENCES p [ON UPDATE ..] [ON DELETE ..]
\* (a constraint name is taken at most once per table: modifying a foreign key is a drop followed by an add)
AddFK(t, p, n, d, cs) ==
  /\ t \in tables /\ p \in tables /\ ~(\E k \in fks : k[1] = t /\ k[3] = n)
  /\ fks' = fks \cup {<<t, p, n, d, cs>>} /\ UNCHANGED <<tables, created, dropped, checks>>
\* ALTER TABLE t DROP COLUMN c.  MySQL refuses while a foreign key of t uses the column (error 1828: the key has to be dropped first,
\* possibly in the same statement); PostgreSQL drops the foreign keys of t that use it along with the column.
Uses(k, t, c) == k[1] = t /\ \E i \in DOMAIN k[5] : k[5][i] = c
DropColumnMy(t, c) == t \in tables /\ ~(\E k \in fks : Uses(k, t, c)) /\ UNCHANGED cvars
DropColumnPG(t, c) == t \in tables /\ fks' = {k \in fks : ~Uses(k, t, c)} /\ UNCHANGED <<tables, created, dropped, checks>>
\* ALTER TABLE t DROP FOREIGN KEY / CONSTRAINT n
DropFK(t, n) ==
  /\ \E k \in fks : k[1] = t /\ k[3] = n
  /\ fks' = {k \in fks : ~(k[1] = t /\ k[3] = n)} /\ UNCHANGED <<tables, created, dropped, checks>>
\* DROP TABLE t
DropTable(t) ==
  /\ t \in tables
  /\ ~(\E k \in fks : k[2] = t /\ k[1] # t)
  /\ tables' = tables \ {t} /\ fks' = {k \in fks : k[1] # t}
  /\ checks' = {k \in checks : k[1] # t}
  /\ dropped' = [dropped EXCEPT ![t] = @ + 1] /\ UNCHANGED created
\* ALTER TABLE t ADD [UNIQUE] INDEX n (parts) / CREATE INDEX n ON t (parts): an index has at least one key part (indexes themselves
\* are not part of the catalogue)
AddIndex(t, k) == t \in tables /\ k > 0 /\ UNCHANGED cvars
\* any other statement on an existing table
Other(t) == t \in tables /\ UNCHANGED cvars

Next == \/ \E t \in Tables : \E P \in SUBSET Tables : CreateTable(t, { <<t, p, "fk_" \o p, "", <<p \o "_id">>>> : p \in P })
        \/ \E t, p \in Tables, d \in Defs : AddFK(t, p, "fk2", d, <<"c2">>)
        \/ \E t \in Tables, n \in {"fk2"} \cup {"fk_" \o p : p \in Tables} : DropFK(t, n)
        \/ \E t \in Tables : DropTable(t)
        \/ \E t \in Tables, c \in {"c2"} \cup {p \o "_id" : p \in Tables} : DropColumnMy(t, c) \/ DropColumnPG(t, c)
Spec == Init /\ [][Next]_cvars

\* one constraint name per table
FKNamesUnique == \A j, k \in fks : (j[1] = k[1] /\ j[3] = k[3]) => j = k
\* ---- properties (C04) ----------------------------------------------------------------------------------
FKTargetsExist == \A k \in fks : k[1] \in tables /\ k[2] \in tables
Once == \A t \in Tables : created[t] <= 1 /\ dropped[t] <= 1
TypeOK == tables \subseteq Tables
====
