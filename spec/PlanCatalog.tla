---- MODULE PlanCatalog ----
\* What a database does with the statements of a plan, as far as tables and foreign keys are concerned (C04), and which
\* schema qualifiers the statements carry (C16).  Guards are the engine's acceptance rules:
\*   - a foreign key can be declared only if its parent table exists (or is the table being created itself);
\*   - a table can be dropped only when no OTHER table's live foreign key points at it;
\*   - a table is created at most once and dropped at most once.
\* A plan is valid iff this specification can consume its statements one after the other and ends in the wanted catalogue.
EXTENDS Naturals, Sequences, FiniteSets, TLC
CONSTANTS Tables          \* universe of table names
VARIABLES tables,         \* existing tables
          fks,            \* live foreign keys: set of <<child, parent, name>>
          created, dropped, \* how often each table was created / dropped by the plan so far
          checks          \* live CHECK constraints: set of <<table, id>> (id = constraint name, or "unnamed:<expr>")
cvars == <<tables, fks, created, dropped, checks>>

Start(T, F) == /\ tables = T /\ fks = F /\ checks = {}
               /\ created = [t \in Tables |-> 0] /\ dropped = [t \in Tables |-> 0]
Init == \E T \in SUBSET Tables : Start(T, {})

\* CREATE TABLE t ( ..., CONSTRAINT n FOREIGN KEY .. REFERENCES p, ... )
CreateTable(t, inline) ==
  /\ t \notin tables
  /\ \A k \in inline : k[1] = t /\ (k[2] \in tables \/ k[2] = t)
  /\ tables' = tables \cup {t} /\ fks' = fks \cup inline
  /\ created' = [created EXCEPT ![t] = @ + 1] /\ UNCHANGED <<dropped, checks>>
\* ALTER TABLE t ADD [CONSTRAINT n] CHECK (e)
AddCheck(t, id) == /\ t \in tables /\ <<t, id>> \notin checks /\ checks' = checks \cup {<<t, id>>} /\ UNCHANGED <<tables, fks, created, dropped>>
\* ALTER TABLE t DROP CONSTRAINT n   (only a NAMED check can be dropped by a statement)
DropCheck(t, id) == /\ <<t, id>> \in checks /\ checks' = checks \ {<<t, id>>} /\ UNCHANGED <<tables, fks, created, dropped>>
\* ALTER TABLE t ADD CONSTRAINT n FOREIGN KEY .. REFERENCES p
AddFK(t, p, n) ==
  /\ t \in tables /\ p \in tables /\ <<t, p, n>> \notin fks
  /\ fks' = fks \cup {<<t, p, n>>} /\ UNCHANGED <<tables, created, dropped, checks>>
\* ALTER TABLE t DROP FOREIGN KEY / CONSTRAINT n
DropFK(t, n) ==
  /\ \E k \in fks : k[1] = t /\ k[3] = n
  /\ fks' = {k \in fks : ~(k[1] = t /\ k[3] = n)} /\ UNCHANGED <<tables, created, dropped, checks>>
\* DROP TABLE t
DropTable(t) ==
  /\ t \in tables
  /\ ~(\E k \in fks : k[2] = t /\ k[1] # t)
  /\ tables' = tables \ {t} /\ fks' = {k \in fks : k[1] # t}
  /\ checks' = {k \in checks : k[1] # t}
  /\ dropped' = [dropped EXCEPT ![t] = @ + 1] /\ UNCHANGED created
\* any other statement on an existing table
Other(t) == t \in tables /\ UNCHANGED cvars

Next == \/ \E t \in Tables : \E P \in SUBSET Tables : CreateTable(t, { <<t, p, "fk">> : p \in P })
        \/ \E t, p \in Tables : AddFK(t, p, "fk2")
        \/ \E t \in Tables, n \in {"fk", "fk2"} : DropFK(t, n)
        \/ \E t \in Tables : DropTable(t)
Spec == Init /\ [][Next]_cvars

\* ---- properties (C04) ----------------------------------------------------------------------------------
FKTargetsExist == \A k \in fks : k[1] \in tables /\ k[2] \in tables
Once == \A t \in Tables : created[t] <= 1 /\ dropped[t] <= 1
TypeOK == tables \subseteq Tables
====
