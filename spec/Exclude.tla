---- MODULE Exclude ----
\* Reference semantics of --exclude patterns (C19): glob segments schema.table.child with * ? [..] and a trailing [type=a|b] selector;
\* a resource matched by a pattern of its own depth is excluded, and everything below an excluded resource goes with it.
\* (sql/schema/exclude_oss.go: ExcludeRealm / ExcludeSchema)
EXTENDS Naturals, Sequences, FiniteSets, TLC
\* names and glob segments are sequences over {"a","b"} plus meta symbols "*", "?", "[ab]"
RECURSIVE Match(_, _)
Match(p, s) ==
  IF p = <<>> THEN s = <<>>
  ELSE LET h == Head(p) IN
    CASE h = "*"    -> \E k \in 0..Len(s) : Match(Tail(p), SubSeq(s, k + 1, Len(s)))
      [] h = "?"    -> s # <<>> /\ Match(Tail(p), Tail(s))
      [] h = "[ab]" -> s # <<>> /\ Head(s) \in {"a", "b"} /\ Match(Tail(p), Tail(s))
      [] OTHER      -> s # <<>> /\ Head(s) = h /\ Match(Tail(p), Tail(s))

Names == { <<"a">>, <<"b">>, <<"a", "b">> }
\* realm: schemas a, ab; each with tables a, b, ab; each table: columns a, b; indexes a(on col a), b(on col b); check a;
\* table b additionally has fk a (column a) referencing table a.
Schemas == { <<"a">>, <<"a", "b">> }
Tables  == Names
Res == { [s |-> s, t |-> <<>>, c |-> <<>>, ty |-> "schema"] : s \in Schemas }
  \cup { [s |-> s, t |-> t, c |-> <<>>, ty |-> "table"] : s \in Schemas, t \in Tables }
  \cup { [s |-> s, t |-> t, c |-> c, ty |-> "column"] : s \in Schemas, t \in Tables, c \in { <<"a">>, <<"b">> } }
  \cup { [s |-> s, t |-> t, c |-> c, ty |-> "index"] : s \in Schemas, t \in Tables, c \in { <<"a">>, <<"b">> } }
  \cup { [s |-> s, t |-> t, c |-> <<"a">>, ty |-> "check"] : s \in Schemas, t \in Tables }
  \cup { [s |-> s, t |-> <<"b">>, c |-> <<"a">>, ty |-> "fk"] : s \in Schemas }
Depth(r) == IF r.ty = "schema" THEN 1 ELSE IF r.ty = "table" THEN 2 ELSE 3
\* a pattern: sequence of segments [g: glob, sel: set of admitted types or {} for "no selector"]
Admits(seg, ty) == seg.sel = {} \/ ty \in seg.sel
SegOK(seg, name, ty) == Admits(seg, ty) /\ Match(seg.g, name)
\* resource r itself is matched by pattern p
Hit(p, r) ==
  /\ Len(p) = Depth(r)
  /\ SegOK(p[1], r.s, "schema")
  /\ (Depth(r) >= 2 => SegOK(p[2], r.t, "table"))
  /\ (Depth(r) = 3 => SegOK(p[3], r.c, r.ty))
  /\ (Depth(r) = 2 => TRUE)
Anc(r) == { x \in Res : (x.ty = "schema" /\ x.s = r.s /\ Depth(r) > 1) \/ (x.ty = "table" /\ x.s = r.s /\ x.t = r.t /\ Depth(r) > 2) }
Excluded(P, r) == \E p \in P : Hit(p, r)
Gone(P, r) == Excluded(P, r) \/ \E x \in Anc(r) : Excluded(P, x)
\* an index / fk that uses an excluded column is unconstrained ("don't care")
DependsOnExcludedCol(P, r) == r.ty \in {"index", "fk"} /\ Excluded(P, [s |-> r.s, t |-> r.t, c |-> r.c, ty |-> "column"])
Expect(P) == [ absent   |-> { r \in Res : Gone(P, r) },
               present  |-> { r \in Res : ~Gone(P, r) /\ ~DependsOnExcludedCol(P, r) } ]
====
