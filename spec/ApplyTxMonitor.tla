---- MODULE ApplyTxMonitor ----
\* Property layer for C13 / C10 over executions of the real `atlas migrate apply` binary on SQLite files.
\* It looks only at what an operator can see: the configuration of the scenario (reset), the commands that were
\* started (cmd), how they ended (exit / crash), the repair of the failing statement (fix) and the content of the
\* database file read by an independent client after every command (disk).  Hook events are ignored here.
\* Each formula is the statement of C13 / C10 transcribed; a failing formula is recorded as <<case, name>>.
EXTENDS Naturals, Sequences, FiniteSets, TLC, Json
CONSTANT TraceFile
Trace == ndJsonDeserialize(TraceFile)

VARIABLES c, cid, dj, dr, dump, startdump,   \* scenario, last observed disk (abstract, and digest of the full logical dump)
          startj, startr,   \* disk when the current command started
          phase,            \* "idle" | "running" | "exited" | "crashed"
          lastcls, lastdry,
          fixed,            \* the failing statement has been repaired
          failed,           \* the failing statement has failed once (it is reached at most once before the fix)
          fb,               \* value of `failed` when the current command started
          crashes, inflight, cmds, l, viol
mvars == <<c, cid, dj, dr, dump, startdump, startj, startr, phase, lastcls, lastdry, fixed, failed, fb, crashes, inflight, cmds, l, viol>>

Ev    == Trace[l]
Is(e) == l <= Len(Trace) /\ Ev.ev = e /\ l' = l + 1
NoRev == [applied |-> 0, total |-> 0, err |-> FALSE, exists |-> FALSE]
Files == DOMAIN c.nst
NS(ff) == c.nst[ff]
ModeFor(ff) == IF c.dir[ff] = "" \/ c.dir[ff] = c.mode THEN c.mode ELSE IF c.mode = "all" THEN "conflict" ELSE c.dir[ff]
Conflict == \E ff \in Files : ModeFor(ff) = "conflict"
Cnt(j, ff, ii) == Cardinality({k \in DOMAIN j : j[k] = <<ff, ii>>})
DoneIn(rv, ff) == rv[ff].exists /\ rv[ff].applied = rv[ff].total /\ rv[ff].total = NS(ff) /\ ~rv[ff].err
AllStmts(ff) == [k \in 1..NS(ff) |-> <<ff, k>>]
RECURSIVE Concat(_, _)
Concat(lo, hi) == IF lo > hi THEN <<>> ELSE AllStmts(lo) \o Concat(lo + 1, hi)

\* ---- formulas ---------------------------------------------------------------------------------------
RevNotAhead(j, rv) == \A ff \in Files : \A ii \in 1..rv[ff].applied : Cnt(j, ff, ii) >= 1
Atomic(j, rv, ff) == \/ (\A ii \in 1..NS(ff) : Cnt(j, ff, ii) = 0) /\ ~(rv[ff].exists /\ rv[ff].applied = rv[ff].total)
                     \/ (\A ii \in 1..NS(ff) : Cnt(j, ff, ii) = 1) /\ DoneIn(rv, ff)
FileAtomic(j, rv) == \A ff \in Files : ModeFor(ff) \in {"file", "all"} => Atomic(j, rv, ff)
Known(j) == \A k \in DOMAIN j : j[k][1] \in Files /\ j[k][2] \in 1..NS(j[k][1])
\* the first file this command had to run, given the disk it started from
FirstPending(rv) == LET P == {ff \in Files : ~(rv[ff].exists /\ rv[ff].applied = rv[ff].total)} IN IF P = {} THEN 0 ELSE CHOOSE x \in P : \A y \in P : x <= y
LastWanted(rv) == IF c.count = 0 THEN Len(c.nst) ELSE LET fp == FirstPending(rv) IN IF fp + c.count - 1 > Len(c.nst) THEN Len(c.nst) ELSE fp + c.count - 1
\* does this command reach the failing statement?
Reaches(rv) == /\ ~fixed /\ c.fail # <<0, 0>> /\ FirstPending(rv) # 0
               /\ c.fail[1] >= FirstPending(rv) /\ c.fail[1] <= LastWanted(rv)
\* C13: the state after a command in which statement c.fail failed, as a function of the state before
FailStateOK(j0, r0, j, rv) ==
  LET ff == c.fail[1]  fp == FirstPending(r0)  k0 == r0[ff].applied IN
    IF c.mode = "all" THEN j = j0 /\ rv = r0
    ELSE /\ \A g \in fp..(ff - 1) : DoneIn(rv, g)
         /\ \A g \in Files : (g < fp \/ g > ff) => rv[g] = r0[g]
         /\ IF ModeFor(ff) = "file"
              THEN /\ j = j0 \o (IF fp < ff THEN SubSeq(AllStmts(fp), r0[fp].applied + 1, NS(fp)) \o Concat(fp + 1, ff - 1) ELSE <<>>)
                   /\ rv[ff] = r0[ff]
              ELSE /\ j = j0 \o (IF fp < ff THEN SubSeq(AllStmts(fp), r0[fp].applied + 1, NS(fp)) \o Concat(fp + 1, ff - 1) ELSE <<>>)
                            \o SubSeq(AllStmts(ff), k0 + 1, c.fail[2] - 1)
                   /\ rv[ff].exists /\ rv[ff].applied = c.fail[2] - 1 /\ rv[ff].total = NS(ff) /\ rv[ff].err
\* a command that ends without error ran exactly the wanted files, each remaining statement once
SuccessOK(j0, r0, j, rv) ==
  LET fp == FirstPending(r0)  lw == LastWanted(r0) IN
    IF fp = 0 THEN j = j0 /\ rv = r0
    ELSE /\ \A g \in fp..lw : DoneIn(rv, g)
         /\ \A g \in Files : (g < fp \/ g > lw) => rv[g] = r0[g]
         /\ j = j0 \o SubSeq(AllStmts(fp), r0[fp].applied + 1, NS(fp)) \o Concat(fp + 1, lw)

Bad(name, cond) == IF cond THEN {} ELSE {<<cid, name>>}

Init == /\ c = [mode |-> "none", dir |-> <<>>, nst |-> <<>>, fail |-> <<0, 0>>, count |-> 0, dry |-> FALSE, baseline |-> 0] /\ cid = 0 /\ dump = "" /\ startdump = ""
        /\ dj = <<>> /\ dr = <<>> /\ startj = <<>> /\ startr = <<>> /\ phase = "idle" /\ lastcls = "" /\ lastdry = FALSE
        /\ fixed = FALSE /\ failed = FALSE /\ fb = FALSE /\ crashes = 0 /\ inflight = <<>> /\ cmds = 0 /\ l = 1 /\ viol = {}

Reset == /\ Is("reset")
         /\ c' = Ev.cfg /\ cid' = Ev.c /\ dump' = Ev.dump /\ startdump' = Ev.dump
         /\ dj' = <<>> /\ dr' = [ff \in DOMAIN Ev.cfg.nst |-> NoRev] /\ startj' = <<>> /\ startr' = dr'
         /\ phase' = "idle" /\ lastcls' = "" /\ lastdry' = FALSE /\ fixed' = FALSE /\ failed' = FALSE /\ fb' = FALSE /\ crashes' = 0 /\ inflight' = <<>> /\ cmds' = 0
         /\ UNCHANGED viol
Cmd == /\ Is("cmd")
       /\ startj' = dj /\ startr' = dr /\ startdump' = dump /\ UNCHANGED dump /\ phase' = "running" /\ lastdry' = Ev.dry /\ cmds' = cmds + 1 /\ fb' = failed
       /\ UNCHANGED <<c, cid, dj, dr, lastcls, fixed, failed, crashes, inflight, viol>>
Exit == /\ Is("exit")
        /\ phase' = "exited" /\ lastcls' = Ev.cls
        /\ failed' = (failed \/ Ev.cls = "stmt-failed")
        /\ UNCHANGED <<c, cid, dj, dr, dump, startdump, startj, startr, lastdry, fixed, fb, crashes, inflight, cmds, viol>>
Crash == /\ Is("crash")
         /\ phase' = "crashed" /\ lastcls' = "crash" /\ crashes' = crashes + 1
         /\ inflight' = Append(inflight, <<Ev.f, Ev.i>>)       \* the statements in flight at the crash points (0,0 if none), one per crash
         /\ UNCHANGED <<c, cid, dj, dr, dump, startdump, startj, startr, lastdry, fixed, failed, fb, cmds, viol>>
\* the repair may also change the length of the file (Ev.nst: the statement counts from now on)
Fix == /\ Is("fix") /\ fixed' = TRUE /\ c' = [c EXCEPT !.nst = Ev.nst]
       /\ UNCHANGED <<cid, dj, dr, dump, startdump, startj, startr, phase, lastcls, lastdry, failed, fb, crashes, inflight, cmds, viol>>
\* the database as read by the independent client after the command ended (or was killed)
Disk == /\ Is("disk")
        /\ dj' = Ev.journal /\ dr' = Ev.revs /\ dump' = Ev.dump /\ UNCHANGED startdump
        /\ phase' = "idle"
        /\ LET j == Ev.journal  rv == Ev.revs
               wouldFail == Reaches(startr) /\ ~fb /\ ~lastdry
           IN viol' = viol
             \cup Bad("WellFormedDisk", Known(j) /\ DOMAIN rv = Files)
             \cup (IF ~(Known(j) /\ DOMAIN rv = Files) THEN {} ELSE
                   Bad("RevNotAhead", RevNotAhead(j, rv))
                   \cup Bad("FileAtomic", lastdry \/ c.baseline # 0 \/ FileAtomic(j, rv))
                   \cup Bad("DryRunChangesNothing", lastdry => (j = startj /\ rv = startr))
                   \cup Bad("DryRunByteIdentical", lastdry => Ev.dump = startdump)
                   \cup (IF lastdry \/ phase # "exited" \/ c.baseline # 0 THEN {} ELSE
                         Bad("NoSpuriousError", (~wouldFail /\ ~Conflict) => lastcls = "ok")
                         \cup Bad("FailureReported", (wouldFail /\ ~Conflict) => lastcls = "stmt-failed")
                         \cup Bad("ConflictRefused", (Conflict /\ lastcls # "ok") => (j = startj /\ rv = startr))
                         \cup Bad("FailState", (lastcls = "stmt-failed" /\ wouldFail /\ crashes = 0) => FailStateOK(startj, startr, j, rv))
                         \cup Bad("SuccessState", (lastcls = "ok" /\ crashes = 0) => SuccessOK(startj, startr, j, rv))
                         \* C10 recovery: after crashes a successful rerun leaves every wanted statement present,
                         \* exactly once in file/all mode, and in none mode repeated at most once per crash that interrupted it
                         \cup Bad("Recovery", (lastcls = "ok" /\ crashes > 0 /\ c.count = 0) =>
                                  /\ \A ff \in Files : DoneIn(rv, ff)
                                  /\ \A ff \in Files : \A ii \in 1..NS(ff) :
                                       /\ Cnt(j, ff, ii) >= 1
                                       /\ (ModeFor(ff) \in {"file", "all"} => Cnt(j, ff, ii) = 1)
                                       /\ Cnt(j, ff, ii) <= 1 + Cardinality({k \in DOMAIN inflight : inflight[k] = <<ff, ii>>}))   \* one repetition per crash that caught it in flight
                         \cup Bad("RerunAfterCrashSucceeds", (crashes > 0 /\ ~wouldFail /\ ~Conflict) => lastcls = "ok")))
        /\ UNCHANGED <<c, cid, startj, startr, lastcls, lastdry, fixed, failed, fb, crashes, inflight, cmds>>
Hook == /\ Is("hook")
        /\ UNCHANGED <<c, cid, dj, dr, dump, startdump, startj, startr, phase, lastcls, lastdry, fixed, failed, fb, crashes, inflight, cmds, viol>>

Step == Reset \/ Cmd \/ Exit \/ Crash \/ Fix \/ Disk \/ Hook
Next == /\ Step
        /\ (l' = Len(Trace) + 1) => PrintT(<<"VIOLS", ToJson(viol')>>)
Spec == Init /\ [][Next]_mvars
Accepted == TLCGet("stats").diameter - 1 = Len(Trace)
====
