---- MODULE EngineTrace ----
\* C->S/S->C for C01 / C05 / C17 on a real SQLite engine: one observation per (from, to) pair exported from SqliteModel.tla.
\*   from, to : model states;  after : independent pragma projection of the database after executing Atlas's plan;
\*   second   : number of changes Atlas computes right after the apply;  err : planning / execution error;
\*   rows_before / rows_after : table -> sequence of rows (column -> quoted value, "-" for a column that is absent or generated);
\*   reversible, undone : Plan.Reversible and the projection after executing the reverse statements in reverse order.
EXTENDS SqliteModel, Json
CONSTANT TraceFile
Trace == ndJsonDeserialize(TraceFile)
VARIABLES l, viol
Ev == Trace[l]
SetOf(s) == { s[k] : k \in DOMAIN s }
\* JSON arrays stand for the model's sets: compare states with the set-like fields turned into sets
NormT(T) == [T EXCEPT !.idx = SetOf(@), !.fks = SetOf(@), !.chk = SetOf(@)]
Norm(S) == [t \in DOMAIN S |-> NormT(S[t])]
Count(s, x) == Cardinality({k \in DOMAIN s : s[k] = x})
SameBag(s, r) == Len(s) = Len(r) /\ \A k \in DOMAIN s : Count(s, s[k]) = Count(r, s[k])
\* C05: the projection of a row onto the surviving columns, with the documented rewrite NULL -> default
\* (the default literal '1' is stored as the integer 1 in a column with INTEGER affinity)
Keep(S, R, t, rw, isAfter) == [c \in Survives(S, R, t) |-> IF ~isAfter /\ c \in Rewritten(S, R, t) /\ rw[c] = "NULL"
                                                           THEN (IF R[t].cols[c].type = "INT" THEN "1" ELSE "'1'") ELSE rw[c]]
RowsOK(e, S, R) ==
  \A t \in DOMAIN S :
    IF S[t] = Absent \/ R[t] = Absent THEN TRUE
    ELSE LET b == [k \in DOMAIN e.rows_before[t] |-> Keep(S, R, t, e.rows_before[t][k], FALSE)]
             a == [k \in DOMAIN e.rows_after[t] |-> Keep(S, R, t, e.rows_after[t][k], TRUE)]
         IN SameBag(b, a)
Names(e) ==
  IF e.skipped # "" THEN {}
  ELSE IF e.mustrefuse THEN
       \* a change that cannot be carried out on the populated table (SqliteModel.Inadmissible), through the CLI: refused, and schema and rows as before
       LET S == Norm(e.from) IN
       (IF e.err # "" THEN {} ELSE {"InadmissibleChangeAccepted"})
       \cup (IF DOMAIN e.after = DOMAIN e.from /\ Norm(e.after) = S /\ RowsOK(e, S, S) THEN {} ELSE {"RefusalNotClean"})
  ELSE LET S == Norm(e.from)  R == Norm(e.to) IN
       (IF e.err = "" THEN {} ELSE {"PlanOrExecError"})
       \cup (IF e.err # "" \/ (DOMAIN e.after = DOMAIN e.to /\ Norm(e.after) = R) THEN {} ELSE {"NotConverged"})
       \cup (IF e.err # "" \/ e.second = 0 THEN {} ELSE {"SecondPlanNotEmpty"})
       \cup (IF e.err # "" \/ DOMAIN e.after # DOMAIN e.to \/ Norm(e.after) # R \/ RowsOK(e, S, R) THEN {} ELSE {"RowsNotPreserved"})
       \cup (IF e.err # "" \/ ~e.reversible THEN {} ELSE
               (IF e.downerr = "" THEN {} ELSE {"DownFailed"})
               \cup (IF e.downerr # "" \/ (DOMAIN e.undone = DOMAIN e.from /\ Norm(e.undone) = S) THEN {} ELSE {"UndoNotRestored"}))
Init == l = 1 /\ viol = {}
Obs == /\ l <= Len(Trace) /\ l' = l + 1
       /\ viol' = viol \cup { <<Ev.id, n>> : n \in Names(Ev) }
Next == /\ Obs
        /\ (l' = Len(Trace) + 1) => PrintT(<<"VIOLS", ToJson(viol')>>)
Spec == Init /\ [][Next]_<<l, viol>>
Accepted == TLCGet("stats").diameter - 1 = Len(Trace)
====
