---- MODULE PlanFile ----
\* A plan as it travels through a migration file (C07, down-file part of C17).
\*   plan     : sequence of changes [cmd, comment, rev] -- cmd / rev entries are opaque statement ids
\*   Format_f : plan -> file structure of formatter f: an "up" statement list, a "down" statement list (if the format has one),
\*              comments and directives (which contribute no statement)
\*   Read_f   : file -> statement list, by the matching directory reader + the dialect's statement scanner
\* Property:  Read_f(Format_f(p)).up = <<p[1].cmd, ..., p[n].cmd>>   and
\*            Read_f(Format_f(p)).down = Flatten(<<p[n].rev, ..., p[1].rev>>)   for formats that write a down section.
EXTENDS Naturals, Sequences, FiniteSets, TLC
CONSTANTS MaxChanges, MaxRev
Ids == 1..(MaxChanges * (1 + MaxRev))
Cmds(p) == [k \in DOMAIN p |-> p[k].cmd]
RECURSIVE Flatten(_)
Flatten(ss) == IF ss = <<>> THEN <<>> ELSE Head(ss) \o Flatten(Tail(ss))
Reverse(s) == [k \in DOMAIN s |-> s[Len(s) + 1 - k]]
Down(p) == Flatten(Reverse([k \in DOMAIN p |-> p[k].rev]))
Reversible(p) == \A k \in DOMAIN p : p[k].rev # <<>>

\* the abstract file: what a formatter writes
Formats == {"atlas", "golang-migrate", "goose", "flyway", "liquibase", "dbmate"}
HasDown(f) == f # "atlas"
File(f, p) == [up |-> [k \in DOMAIN p |-> [stmt |-> p[k].cmd, comment |-> p[k].comment]],
               down |-> IF HasDown(f) THEN Down(p) ELSE <<>>]
\* the abstract reader: comments are dropped
ReadUp(file) == [k \in DOMAIN file.up |-> file.up[k].stmt]
ReadDown(file) == file.down

\* model check: for every plan within the bounds, reading back what was formatted gives the plan
Plans == UNION { [1..n -> [cmd : 1..MaxChanges, comment : {"", "c"}, rev : UNION { [1..r -> (MaxChanges + 1)..(MaxChanges + MaxRev)] : r \in 0..MaxRev }]] : n \in 0..MaxChanges }
RoundTrip == \A p \in Plans : \A f \in Formats :
               /\ ReadUp(File(f, p)) = Cmds(p)
               /\ (HasDown(f) => ReadDown(File(f, p)) = Down(p))
ASSUME PrintT(<<"PLANS", Cardinality(Plans)>>)
ASSUME RoundTrip
====
