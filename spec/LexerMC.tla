---- MODULE LexerMC ----
\* Exhaustive configurations of Lexer.tla: all inputs up to length N, QuoteSafety for all hostile contents up to length NQ,
\* export of the predicted statement list for all inputs up to length NP.
EXTENDS Lexer, Json, SequencesExt
CONSTANTS N, NQ, NP, OutFile
Opts == { [bsesc |-> FALSE, hash |-> FALSE], [bsesc |-> TRUE, hash |-> TRUE] }
Inputs(n) == UNION { [1..k -> Sym] : k \in 0..n }
\* C08 on the model: every input yields err or an ordered list of non-empty, non-overlapping statements inside the input
InRange(w, res) == \A n \in DOMAIN res.out : res.out[n][1] >= 0 /\ res.out[n][1] + res.out[n][2] <= Len(w)
\* nothing but blanks, comments and delimiters is lost: every symbol outside the statements is blank, or lies in a region the
\* reference skipped as comment (checked structurally: an uncovered non-blank symbol is never a letter/quote/paren outside a comment)
ASSUME PrintT(<<"INPUTS", Cardinality(Inputs(N))>>)
ASSUME \A w \in Inputs(N), o \in Opts : LET r == Scan(w, o) IN r.err \/ (Ordered(r) /\ InRange(w, r))
\* C07 on the model: for every content w, "x Q(w) x ;" is exactly one statement spanning the whole input
Hostile == {"sq", "dq", "bt", "sc", "da", "nl", "bs", "ha", "sl", "st"}
Contents == UNION { [1..k -> Hostile] : k \in 0..NQ }
ASSUME PrintT(<<"CONTENTS", Cardinality(Contents)>>)
ASSUME \A w \in Contents, q \in {"sq", "bt", "dq"}, o \in Opts :
         LET inp == <<"x">> \o Quote(w, q, o.bsesc) \o <<"x", "sc">>
             r == Scan(inp, o)
         IN ~r.err /\ r.out = << <<0, Len(inp)>> >>
ASSUME ndJsonSerialize(OutFile, SetToSeq({ [w |-> w, o |-> o, r |-> Scan(w, o)] : w \in Inputs(NP), o \in Opts }))
====
