---- MODULE LexerContents ----
\* Export of the hostile contents (the quantifier domain of QuoteSafety) for the C07 binding.
EXTENDS Lexer, Json, SequencesExt
CONSTANTS NQ, QQ, OutFile
Hostile == {"sq", "dq", "bt", "sc", "da", "nl", "bs", "ha", "sl", "st"}
\* every content up to NQ, and longer ones (up to QQ) made of quote characters and backslashes only: the inputs of the "is it already
\* quoted?" decisions (sqlx.IsQuoted) are strings that begin and end with a quote
Quotes == {"sq", "dq", "bt", "bs"}
Contents == UNION { [1..k -> Hostile] : k \in 0..NQ } \cup UNION { [1..k -> Quotes] : k \in 0..QQ }
ASSUME PrintT(<<"CONTENTS", Cardinality(Contents)>>)
ASSUME ndJsonSerialize(OutFile, SetToSeq(Contents))
====
