---- MODULE LexerContents ----
\* Export of the hostile contents (the quantifier domain of QuoteSafety) for the C07 binding.
EXTENDS Lexer, Json, SequencesExt
CONSTANTS NQ, OutFile
Hostile == {"sq", "dq", "bt", "sc", "da", "nl", "bs", "ha", "sl", "st"}
Contents == UNION { [1..k -> Hostile] : k \in 0..NQ }
ASSUME PrintT(<<"CONTENTS", Cardinality(Contents)>>)
ASSUME ndJsonSerialize(OutFile, SetToSeq(Contents))
====
