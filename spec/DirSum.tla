---- MODULE DirSum ----
\* Migration-directory integrity (C06): files + the recorded sum file, Atlas's writers, tampering, and the
\* outcome of Validate.  sql/migrate/dir.go: NewHashFile / HashFile.Sum / UnmarshalText / Validate.
\*
\* SHA-256 is abstracted as injective: the hash recorded for the k-th hashed file *is* the sequence of
\*   <<name>> of every file up to k and <<content>> of every non-ignored one ("cumulative hash"),
\* and the total *is* the sequence of recorded entries.  A file whose first directive is `atlas:sum ignore`
\* contributes its name to the chain but not its content and gets no entry of its own.
EXTENDS Naturals, Sequences, FiniteSets, TLC

CONSTANTS Names,     \* sequence of file names in directory (lexicographic) order
          Contents   \* set of content ids
Idx == 1..Len(Names)
NoFile == [c |-> "-", ign |-> FALSE]

VARIABLES files,      \* Idx -> [c, ign]   (c = "-" : absent)
          sum,        \* [has, fmt, total, entries]: the *parsed* sum file: entries = sequence of [n, h]; total = what line 1 hashes
          hist, steps
vars == <<files, sum, hist, steps>>

Present(F) == {k \in Idx : F[k].c # "-"}
\* cumulative hash after file k: what has been written into the running hash
Chain(F, k) == [j \in {m \in Present(F) : m <= k} |-> IF F[j].ign THEN "ign" ELSE F[j].c]
Hashed(F) == {m \in Present(F) : ~F[m].ign}
RECURSIVE SeqOf(_, _)
SeqOf(S, F) == IF S = {} THEN <<>> ELSE LET k == CHOOSE x \in S : \A y \in S : x <= y IN <<[n |-> Names[k], h |-> Chain(F, k)]>> \o SeqOf(S \ {k}, F)
Computed(F) == SeqOf(Hashed(F), F)           \* what Dir.Checksum() returns for the files on disk
NoSum == [has |-> FALSE, fmt |-> TRUE, total |-> <<>>, entries |-> <<>>]
Fresh(F) == [has |-> TRUE, fmt |-> TRUE, total |-> Computed(F), entries |-> Computed(F)]

\* ---- the reference outcome of Validate ------------------------------------------------------------
Outcome(F, s) ==
  IF ~s.has THEN (IF Present(F) = {} THEN "ok" ELSE "notfound")
  ELSE IF ~s.fmt THEN "format"
  ELSE IF s.total # s.entries THEN "mismatch"          \* line 1 does not hash the entries below it
  ELSE IF s.entries # Computed(F) THEN "mismatch"      \* recorded # computed
  ELSE "ok"
Valid == Outcome(files, sum) = "ok"

Log(rec) == /\ hist' = Append(hist, rec @@ [out |-> Outcome(files', sum')]) /\ steps' = steps + 1
Base(a) == [a |-> a, k |-> 0, m |-> 0, c |-> "", ign |-> FALSE]

Init == /\ files = [k \in Idx |-> NoFile] /\ sum = NoSum /\ hist = <<>> /\ steps = 0

\* ---- tampering with the directory ------------------------------------------------------------------
Write(k, c, g) == /\ files[k] # [c |-> c, ign |-> g]
                  /\ files' = [files EXCEPT ![k] = [c |-> c, ign |-> g]] /\ UNCHANGED sum
                  /\ Log([Base("write") EXCEPT !.k = k, !.c = c, !.ign = g])
Remove(k) == /\ files[k].c # "-" /\ files' = [files EXCEPT ![k] = NoFile] /\ UNCHANGED sum
             /\ Log([Base("remove") EXCEPT !.k = k])
Rename(k, m) == /\ files[k].c # "-" /\ files[m].c = "-"
                /\ files' = [files EXCEPT ![m] = files[k], ![k] = NoFile] /\ UNCHANGED sum
                /\ Log([Base("rename") EXCEPT !.k = k, !.m = m])
SwapContents(k, m) == /\ k < m /\ files[k].c # "-" /\ files[m].c # "-" /\ files[k] # files[m]
                      /\ files' = [files EXCEPT ![k] = files[m], ![m] = files[k]] /\ UNCHANGED sum
                      /\ Log([Base("swap") EXCEPT !.k = k, !.m = m])
\* ---- tampering with atlas.sum ----------------------------------------------------------------------
Junk == <<"junk">>
EditEntryHash(p) == /\ sum.has /\ sum.fmt /\ p \in DOMAIN sum.entries /\ sum.entries[p].h # Junk
                    /\ sum' = [sum EXCEPT !.entries[p].h = Junk] /\ UNCHANGED files
                    /\ Log([Base("sum-edit-hash") EXCEPT !.k = p])
EditEntryName(p) == /\ sum.has /\ sum.fmt /\ p \in DOMAIN sum.entries /\ sum.entries[p].n # "zz.sql"
                    /\ sum' = [sum EXCEPT !.entries[p].n = "zz.sql"] /\ UNCHANGED files
                    /\ Log([Base("sum-edit-name") EXCEPT !.k = p])
DropLine(p) == /\ sum.has /\ sum.fmt /\ p \in DOMAIN sum.entries
               /\ sum' = [sum EXCEPT !.entries = SubSeq(sum.entries, 1, p - 1) \o SubSeq(sum.entries, p + 1, Len(sum.entries))] /\ UNCHANGED files
               /\ Log([Base("sum-drop-line") EXCEPT !.k = p])
DupLine(p) == /\ sum.has /\ sum.fmt /\ p \in DOMAIN sum.entries /\ Len(sum.entries) <= Len(Names)
              /\ sum' = [sum EXCEPT !.entries = SubSeq(sum.entries, 1, p) \o SubSeq(sum.entries, p, Len(sum.entries))] /\ UNCHANGED files
              /\ Log([Base("sum-dup-line") EXCEPT !.k = p])
SwapLines(p) == /\ sum.has /\ sum.fmt /\ p \in DOMAIN sum.entries /\ p + 1 \in DOMAIN sum.entries /\ sum.entries[p] # sum.entries[p + 1]
                /\ sum' = [sum EXCEPT !.entries = [sum.entries EXCEPT ![p] = sum.entries[p + 1], ![p + 1] = sum.entries[p]]] /\ UNCHANGED files
                /\ Log([Base("sum-swap-lines") EXCEPT !.k = p])
EditTotal == /\ sum.has /\ sum.fmt /\ sum.total # <<[n |-> "junk", h |-> Junk]>>
             /\ sum' = [sum EXCEPT !.total = <<[n |-> "junk", h |-> Junk]>>] /\ UNCHANGED files
             /\ Log(Base("sum-edit-total"))
BreakLine(p) == /\ sum.has /\ sum.fmt /\ p \in DOMAIN sum.entries
                /\ sum' = [sum EXCEPT !.fmt = FALSE] /\ UNCHANGED files
                /\ Log([Base("sum-break-line") EXCEPT !.k = p])
RemoveSum == /\ sum.has /\ sum' = NoSum /\ UNCHANGED files /\ Log(Base("sum-remove"))
\* ---- Atlas's writers --------------------------------------------------------------------------------
Hash == /\ sum' = Fresh(files) /\ UNCHANGED files /\ Log(Base("hash"))       \* `migrate hash`, WriteSumFile(Checksum())
\* Planner.WritePlan: refuses an invalid directory, writes one new file and the sum
WritePlan(k, c) == /\ Valid /\ files[k].c = "-" /\ \A m \in Present(files) : m < k
                   /\ files' = [files EXCEPT ![k] = [c |-> c, ign |-> FALSE]]
                   /\ sum' = Fresh(files')
                   /\ Log([Base("writeplan") EXCEPT !.k = k, !.c = c])
\* `migrate new`: a new (empty) file + re-hash, on a valid directory only
NewFile(k) == /\ Valid /\ files[k].c = "-" /\ \A m \in Present(files) : m < k
              /\ files' = [files EXCEPT ![k] = [c |-> "empty", ign |-> FALSE]]
              /\ sum' = Fresh(files')
              /\ Log([Base("new") EXCEPT !.k = k])

Tamper == \/ \E k \in Idx, c \in Contents, g \in BOOLEAN : Write(k, c, g)
          \/ \E k \in Idx : Remove(k)
          \/ \E k, m \in Idx : Rename(k, m) \/ SwapContents(k, m)
          \/ \E p \in Idx : EditEntryHash(p) \/ EditEntryName(p) \/ DropLine(p) \/ DupLine(p) \/ SwapLines(p) \/ BreakLine(p)
          \/ EditTotal \/ RemoveSum
Writer == Hash \/ (\E k \in Idx, c \in Contents : WritePlan(k, c)) \/ (\E k \in Idx : NewFile(k))
Next == Tamper \/ Writer
Spec == Init /\ [][Next]_vars

\* ---- properties of the model (C06) ------------------------------------------------------------------
\* every Atlas operation that writes to the directory leaves it valid
WritersValid == [][Writer => Valid']_vars
\* what Validate looks at, abstractly: the directory as hashed, and the parsed sum file
AbsDir(F) == Computed(F)
\* any change of a validated directory is detected: after a tamper step that changes the hashed view of the
\* directory or the parsed sum file, validation fails (with a checksum-class outcome)
TamperDetected == [][(Tamper /\ Valid /\ sum.has /\ (AbsDir(files') # AbsDir(files) \/ sum' # sum) /\ ~(Present(files) = {} /\ ~sum'.has)) => ~Valid']_vars
\* and an untouched (or only neutrally touched) directory keeps validating
NeutralKeeps == [][(Valid /\ sum.has /\ AbsDir(files') = AbsDir(files) /\ sum' = sum) => Valid']_vars
\* a trailing ignored file is the documented blind spot: it changes no later hash
TrailingIgnoredOnly == [][(Tamper /\ Valid /\ sum.has /\ files' # files /\ AbsDir(files') = AbsDir(files)) =>
                           \A k \in Idx : files'[k] # files[k] => (files[k].ign \/ files[k].c = "-") /\ (files'[k].ign \/ files'[k].c = "-")]_vars
====
