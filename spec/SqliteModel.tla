---- MODULE SqliteModel ----
\* Engine-backed slice of the schema algebra for SQLite (C01 converge, C03 exports, C05 rows, C17 undo).
\* The catalogue has the features C01's quantifier lists: column types / nullability / literal defaults, single / composite /
\* autoincrement primary keys, unique / multi-column / descending / partial indexes, named and unnamed checks, self / cross /
\* cyclic foreign keys with all referential actions, WITHOUT ROWID / STRICT, VIRTUAL / STORED generated columns.
\* The oracle of C01 is the target state itself: executing the planned statements on a database in state S must leave the
\* database in state R (independent projection) and a second plan must be empty.  WF is what the engine accepts AND what is
\* satisfiable on a populated table (no NOT NULL column without default is added; NULL -> NOT NULL only with a default).
EXTENDS Naturals, Sequences, FiniteSets, TLC
Tn == {"t1", "t2"}
Cn == {"a", "b", "c"}
Types == {"INT", "TEXT"}
Dflts == {"none", "d1"}
Gens  == {"", "virtual", "stored"}
Acts  == {"NO ACTION", "CASCADE", "RESTRICT", "SET NULL", "SET DEFAULT"}
NoCol == [type |-> "-", null |-> FALSE, dflt |-> "none", gen |-> ""]
ColRec == [type : Types, null : BOOLEAN, dflt : Dflts, gen : Gens]
Seqs(S, n) == UNION { [1..k -> S] : k \in 0..n }
Inj(q) == \A x, y \in DOMAIN q : x # y => q[x] # q[y]
Part(c, d) == [c |-> c, desc |-> d]
PCols(p) == [k \in DOMAIN p |-> p[k].c]

Cols(T) == {c \in Cn : T.cols[c] # NoCol}
Stored(T) == {c \in Cols(T) : T.cols[c].gen = ""}
Absent == [cols |-> [c \in Cn |-> NoCol], pk |-> <<>>, autoinc |-> FALSE, worowid |-> FALSE, strict |-> FALSE, idx |-> {}, fks |-> {}, chk |-> {}]
Present(S) == {t \in Tn : S[t] # Absent}

\* ---- well-formedness: accepted by the engine and satisfiable on populated tables -----------------------
WFT(S, t) == LET T == S[t] IN
   /\ Stored(T) # {}
   /\ Inj(T.pk) /\ \A k \in DOMAIN T.pk : T.pk[k] \in Stored(T) /\ ~T.cols[T.pk[k]].null
   /\ T.autoinc => (Len(T.pk) = 1 /\ T.cols[T.pk[1]].type = "INT" /\ ~T.worowid)
   /\ T.worowid => T.pk # <<>>
   /\ \A c \in Cols(T) : T.cols[c].gen # "" => (T.cols[c].dflt = "none" /\ T.cols[c].type = "INT" /\ c # "a" /\ "a" \in Stored(T) /\ T.cols["a"].type = "INT")
   /\ \A x \in T.idx : Inj(PCols(x.parts)) /\ x.parts # <<>> /\ \A k \in DOMAIN x.parts : x.parts[k].c \in Cols(T)
   /\ \A x \in T.idx : x.where # "" => ("a" \in Stored(T))          \* the predicate mentions column a
   /\ \A g \in T.fks : /\ g.col \in Stored(T) /\ g.ref \in Present(S)
                       /\ S[g.ref].pk = <<g.refcol>> /\ T.cols[g.col].type = "INT"
                       /\ (g.onupd = "SET NULL" \/ g.ondel = "SET NULL") => T.cols[g.col].null
                       /\ (g.onupd = "SET DEFAULT" \/ g.ondel = "SET DEFAULT") => (T.cols[g.col].dflt # "none" \/ T.cols[g.col].null)
   /\ \A g, h \in T.fks : g.name = h.name => g = h
   /\ \A g, h \in T.chk : (g.name = h.name /\ g.name # "") => g = h
   /\ \A g, h \in T.chk : g.expr = h.expr => g = h               \* an unnamed check is identified by its expression: no duplicates
   /\ \A g \in T.chk : "a" \in Stored(T)                            \* check expressions mention column a
WF(S) == /\ \A t \in Present(S) : WFT(S, t)
         /\ \A t, u \in Present(S) : \A x \in S[t].idx, y \in S[u].idx : (x.name = y.name) => (t = u /\ x = y)   \* index names are per database

\* ---- elementary edits ----------------------------------------------------------------------------------
With(S, t, T) == [S EXCEPT ![t] = T]
IntCol == [type |-> "INT", null |-> FALSE, dflt |-> "none", gen |-> ""]
NewTables == { [Absent EXCEPT !.cols = [c \in Cn |-> IF c = "a" THEN IntCol ELSE NoCol], !.pk = p] : p \in {<<>>, <<"a">>} }
AddTableS(S)   == { With(S, t, T) : t \in Tn \ Present(S), T \in NewTables }
DropTableS(S)  == { With(S, t, Absent) : t \in Present(S) }
\* a column can be added to a populated table only if nullable, defaulted, or generated (virtual)
Addable(r) == (r.gen = "" /\ (r.null \/ r.dflt # "none")) \/ (r.gen = "virtual" /\ r.null)
AddColumnS(S)  == UNION { { With(S, t, [S[t] EXCEPT !.cols[c] = r]) : c \in Cn \ Cols(S[t]), r \in {x \in ColRec : Addable(x)} } : t \in Present(S) }
DropColumnS(S) == UNION { { With(S, t, [S[t] EXCEPT !.cols[c] = NoCol]) : c \in Cols(S[t]) } : t \in Present(S) }
\* NULL -> NOT NULL needs a default for the rows that hold NULL; regular -> generated is a drop + add and is not an edit; generated -> regular
\* (the expression is removed, name / type / nullability stay) keeps the values the column showed
ModOK(o, r) == /\ (o.gen = r.gen \/ (o.gen # "" /\ r.gen = "" /\ r.type = o.type /\ r.null = o.null /\ r.dflt = "none"))   \* ... but a generated column may become a regular one
               /\ ~(o.type = "TEXT" /\ r.type = "INT")           \* stored text is not convertible: the engine itself would refuse the copy
               /\ (o.null /\ ~r.null) => r.dflt # "none"
ModColumnS(S)  == UNION { UNION { { With(S, t, [S[t] EXCEPT !.cols[c] = r]) : r \in {x \in ColRec \ {S[t].cols[c]} : ModOK(S[t].cols[c], x)} }
                                  : c \in Cols(S[t]) } : t \in Present(S) }
In == {"i1", "i2"}
Parts == { Part(c, d) : c \in Cn, d \in BOOLEAN }
IdxRecs == { [name |-> n, parts |-> p, unique |-> u, where |-> w] : n \in In, p \in Seqs(Parts, 2) \ {<<>>}, u \in BOOLEAN, w \in {"", "w1"} }
AddIndexS(S)   == UNION { { With(S, t, [S[t] EXCEPT !.idx = @ \cup {x}]) : x \in IdxRecs } : t \in Present(S) }
DropIndexS(S)  == UNION { { With(S, t, [S[t] EXCEPT !.idx = @ \ {x}]) : x \in S[t].idx } : t \in Present(S) }
ModIndexS(S)   == UNION { UNION { { With(S, t, [S[t] EXCEPT !.idx = (@ \ {x}) \cup {y}]) : y \in {z \in IdxRecs : z.name = x.name /\ z # x} } : x \in S[t].idx } : t \in Present(S) }
SetPKS(S)      == UNION { { With(S, t, [S[t] EXCEPT !.pk = p, !.autoinc = ai]) : p \in Seqs(Cn, 3), ai \in BOOLEAN } : t \in Present(S) }
FkRecs == { [name |-> "f1", col |-> c, ref |-> r, refcol |-> rc, onupd |-> u, ondel |-> a] : c \in Cn, r \in Tn, rc \in {"a"}, u \in {"NO ACTION", "CASCADE"}, a \in Acts }
AddFKS(S)      == UNION { { With(S, t, [S[t] EXCEPT !.fks = @ \cup {g}]) : g \in {h \in FkRecs : S[t].fks = {}} } : t \in Present(S) }
DropFKS(S)     == UNION { { With(S, t, [S[t] EXCEPT !.fks = @ \ {g}]) : g \in S[t].fks } : t \in Present(S) }
ModFKS(S)      == UNION { UNION { { With(S, t, [S[t] EXCEPT !.fks = (@ \ {g}) \cup {h}]) : h \in {x \in FkRecs : x # g} } : g \in S[t].fks } : t \in Present(S) }
ChkRecs == { [name |-> n, expr |-> e] : n \in {"", "k1", "k2"}, e \in {"e1", "e2"} }
AddChkS(S)     == UNION { { With(S, t, [S[t] EXCEPT !.chk = @ \cup {x}]) : x \in ChkRecs \ S[t].chk } : t \in Present(S) }
DropChkS(S)    == UNION { { With(S, t, [S[t] EXCEPT !.chk = @ \ {x}]) : x \in S[t].chk } : t \in Present(S) }
ModChkS(S)     == UNION { UNION { { With(S, t, [S[t] EXCEPT !.chk = (@ \ {x}) \cup {y}]) : y \in {z \in ChkRecs : z.name = x.name /\ z # x /\ z.name # ""} } : x \in S[t].chk } : t \in Present(S) }
\* a named check renamed, same expression (drop + add under another name)
RenChkS(S)     == UNION { UNION { { With(S, t, [S[t] EXCEPT !.chk = (@ \ {x}) \cup {[x EXCEPT !.name = n]}]) : n \in {"k1", "k2"} \ {x.name} } : x \in {y \in S[t].chk : y.name # ""} } : t \in Present(S) }
OptionS(S)     == UNION { { With(S, t, [S[t] EXCEPT !.worowid = w, !.strict = s]) : w \in BOOLEAN, s \in BOOLEAN } : t \in Present(S) }
Succ(S) == { X \in AddTableS(S) \cup DropTableS(S) \cup AddColumnS(S) \cup DropColumnS(S) \cup ModColumnS(S)
                  \cup AddIndexS(S) \cup DropIndexS(S) \cup ModIndexS(S) \cup SetPKS(S)
                  \cup AddFKS(S) \cup DropFKS(S) \cup ModFKS(S)
                  \cup AddChkS(S) \cup DropChkS(S) \cup ModChkS(S) \cup RenChkS(S) \cup OptionS(S) : X # S /\ WF(X) }
\* compound edits over two tables: a change that rebuilds t1 together with an in-place change of t2 (and vice versa)
Rebuilds(S, t) == { X \in DropColumnS(S) \cup ModColumnS(S) \cup SetPKS(S) \cup DropChkS(S) : X[t] # S[t] /\ WF(X) }
InPlace(S, t)  == { X \in AddIndexS(S) \cup DropIndexS(S) \cup AddColumnS(S) : X[t] # S[t] /\ WF(X) }
Cross(S) == IF Present(S) # Tn THEN {} ELSE
              { X \in UNION { { [S EXCEPT !["t1"] = A["t1"], !["t2"] = B["t2"]] : B \in InPlace(S, "t2") } : A \in Rebuilds(S, "t1") }
                     \cup UNION { { [S EXCEPT !["t2"] = A["t2"], !["t1"] = B["t1"]] : B \in InPlace(S, "t1") } : A \in Rebuilds(S, "t2") } : WF(X) }

\* compound edits on ONE table: a column added in place together with any second edit of that table - the planner decides per table whether
\* ALTER TABLE suffices or the table must be rebuilt, from ALL of its changes (sqlite/migrate.go: alterable)
Second(M, t) == { X \in DropColumnS(M) \cup ModColumnS(M) \cup AddColumnS(M) \cup DropIndexS(M) \cup SetPKS(M)
                        \cup AddFKS(M) \cup DropFKS(M) \cup ModFKS(M) \cup AddChkS(M) \cup DropChkS(M) \cup ModChkS(M) \cup OptionS(M)
                   : X[t] # M[t] /\ (\A u \in Tn \ {t} : X[u] = M[u]) /\ WF(X) }
\* the net effect must itself be admissible on a populated table (e.g. "add with default, then drop the default" is an inadmissible add)
NetOK(S, R) == \A t \in Present(S) \cap Present(R) :
                 /\ \A c \in Cols(R[t]) \ Cols(S[t]) : Addable(R[t].cols[c]) /\ (\A k \in DOMAIN R[t].pk : R[t].pk[k] # c)   \* every row takes the same value: not a key
                 /\ \A c \in Cols(R[t]) \cap Cols(S[t]) : R[t].cols[c] = S[t].cols[c] \/ ModOK(S[t].cols[c], R[t].cols[c])
SameTable(S) == { R \in UNION { UNION { Second(M, t) \ {S} : M \in { X \in AddColumnS(S) : X[t] # S[t] /\ WF(X) } } : t \in Present(S) } : NetOK(S, R) }

\* changes that cannot be carried out on a populated table - a rebuild of t together with a new NOT NULL column without default: no value
\* exists for the rows that are there. Atlas must refuse them (its copy statement fails) and leave schema and rows as they were.
Inadmissible(S) == UNION { UNION { { With(M, t, [M[t] EXCEPT !.cols[c] = [type |-> "INT", null |-> FALSE, dflt |-> "none", gen |-> ""]]) : c \in Cn \ (Cols(M[t]) \cup Cols(S[t])) }       \* a column the table never had
                                   : M \in { X \in Rebuilds(S, t) : Stored(X[t]) \cap Stored(S[t]) # {} } } : t \in Present(S) }   \* some column survives: rows are copied

\* ---- row semantics of an edit (C05): which column values must survive ----------------------------------
\* a column survives in table t iff it is present before (stored or generated: the values it showed), stored after, and has the same type
Survives(S, R, t) == { c \in Cols(S[t]) \cap Stored(R[t]) : S[t].cols[c].type = R[t].cols[c].type }
\* ... except that NULLs of a column that becomes NOT NULL take the default (the only documented rewrite)
Rewritten(S, R, t) == { c \in Survives(S, R, t) : S[t].cols[c].null /\ ~R[t].cols[c].null }

\* ---- seeds ---------------------------------------------------------------------------------------------
Empty == [t \in Tn |-> Absent]
TextNull == [type |-> "TEXT", null |-> TRUE, dflt |-> "d1", gen |-> ""]
Seed1 == [Empty EXCEPT !["t1"] = [Absent EXCEPT !.cols = [c \in Cn |-> IF c = "c" THEN NoCol ELSE IF c = "a" THEN IntCol ELSE TextNull],
                                    !.pk = <<"a">>, !.idx = {[name |-> "i1", parts |-> <<Part("b", FALSE)>>, unique |-> TRUE, where |-> ""]},
                                    !.chk = {[name |-> "k1", expr |-> "e1"]}]]
Seed2 == [Seed1 EXCEPT !["t2"] = [Absent EXCEPT !.cols = [c \in Cn |-> IF c = "c" THEN NoCol ELSE [type |-> "INT", null |-> (c = "b"), dflt |-> "none", gen |-> ""]],
                                    !.pk = <<"a">>, !.fks = {[name |-> "f1", col |-> "b", ref |-> "t1", refcol |-> "a", onupd |-> "CASCADE", ondel |-> "NO ACTION"]}]]
\* Seed2 with a cascading child: a parent rebuilt with foreign keys enforced would silently delete the child's rows
\* ... and a VIRTUAL generated column (its values are computed on read; when it becomes a regular column they must be materialised)
Seed5 == [Seed2 EXCEPT !["t2"].fks = {[name |-> "f1", col |-> "b", ref |-> "t1", refcol |-> "a", onupd |-> "NO ACTION", ondel |-> "CASCADE"]},
                       !["t2"].cols["c"] = [type |-> "INT", null |-> FALSE, dflt |-> "none", gen |-> "virtual"],
                       \* ... and a nullable one in the parent: when it becomes a regular column a copy that leaves it out loses values silently
                       !["t1"].cols["c"] = [type |-> "INT", null |-> TRUE, dflt |-> "none", gen |-> "virtual"]]
\* Seed1 next to a table with a single column: whatever is modified there, no column of the table is left unchanged
Seed6 == [Seed1 EXCEPT !["t2"] = [Absent EXCEPT !.cols = [c \in Cn |-> IF c = "a" THEN [type |-> "INT", null |-> TRUE, dflt |-> "none", gen |-> ""] ELSE NoCol]]]
Seed3 == [Empty EXCEPT !["t1"] = [Absent EXCEPT !.cols = [c \in Cn |-> IntCol], !.pk = <<"b", "a">>, !.worowid = TRUE,
                                    !.idx = {[name |-> "i1", parts |-> <<Part("a", FALSE), Part("c", TRUE)>>, unique |-> FALSE, where |-> "w1"]},
                                    !.chk = {[name |-> "", expr |-> "e1"], [name |-> "k2", expr |-> "e2"]}]]
Seed4 == [Empty EXCEPT !["t1"] = [Absent EXCEPT !.cols = [c \in Cn |-> IF c = "a" THEN IntCol ELSE IF c = "b" THEN [type |-> "INT", null |-> TRUE, dflt |-> "none", gen |-> "stored"] ELSE TextNull],
                                    !.pk = <<"a">>, !.autoinc = TRUE, !.strict = TRUE],
                        !["t2"] = [Absent EXCEPT !.cols = [c \in Cn |-> IF c = "c" THEN NoCol ELSE [type |-> "INT", null |-> (c = "b"), dflt |-> "none", gen |-> ""]],
                                    !.pk = <<"a">>, !.fks = {[name |-> "f1", col |-> "b", ref |-> "t2", refcol |-> "a", onupd |-> "CASCADE", ondel |-> "SET NULL"]}]]
====
