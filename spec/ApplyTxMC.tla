---- MODULE ApplyTxMC ----
\* Exhaustive configurations of ApplyTx.tla.
EXTENDS ApplyTx
CONSTANTS NF, NSmax, Counts, Drys, MaxDirectives
Modes == {"none", "file", "all"}
Dirs  == { d \in [1..NF -> {"", "none", "file"}] : Cardinality({ff \in 1..NF : d[ff] # ""}) <= MaxDirectives }
AllConfigs ==
  UNION { { [mode |-> m, dir |-> d, nst |-> n, fail |-> fl, count |-> k, dry |-> y] :
              fl \in {<<0, 0>>} \cup { <<ff, ii>> : ff \in 1..NF, ii \in 1..NSmax } } :
          m \in Modes, d \in Dirs, n \in [1..NF -> 1..NSmax], k \in Counts, y \in Drys }
ConfigSet == { cf \in AllConfigs : cf.fail = <<0, 0>> \/ cf.fail[2] <= cf.nst[cf.fail[1]] }
====
