---- MODULE FkDiff ----
\* Reference for the flags of a modified foreign key (C02: "the right kind flags"), over composite keys: the child columns and the
\* referenced columns are SEQUENCES (the pairing of column k with referenced column k is part of the constraint), so a permutation of
\* either side is an edit. Function style: TLC evaluates Flags on every ordered pair of the bounded domain and exports the expectations.
\* sql/internal/sqlx/diff.go: fkChange; convention of the differs: another referenced table also means other referenced columns.
EXTENDS Naturals, Sequences, FiniteSets, TLC, Json, SequencesExt
CONSTANT OutFile
ColSeqs == { <<"a">>, <<"b">>, <<"a", "b">>, <<"b", "a">> }
RefSeqs == { <<"x">>, <<"y">>, <<"x", "y">>, <<"y", "x">> }
Fks == { f \in [cols : ColSeqs, refcols : RefSeqs, reftable : {"p", "q"}, onupd : {"NO ACTION", "CASCADE"}, ondel : {"NO ACTION", "SET NULL"}] : Len(f.cols) = Len(f.refcols) }
Flags(f, g) == (IF f.cols # g.cols THEN {"column"} ELSE {})
          \cup (IF f.reftable # g.reftable THEN {"reftable", "refcolumn"} ELSE IF f.refcols # g.refcols THEN {"refcolumn"} ELSE {})
          \cup (IF f.onupd # g.onupd THEN {"onupdate"} ELSE {})
          \cup (IF f.ondel # g.ondel THEN {"ondelete"} ELSE {})
Pairs == Fks \X Fks
\* exactness of the reference itself: no flag iff nothing was edited; every edited field is named by a flag
ASSUME \A p \in Pairs : (Flags(p[1], p[2]) = {}) <=> (p[1] = p[2])
ASSUME \A p \in Pairs : /\ ("column" \in Flags(p[1], p[2])) <=> (p[1].cols # p[2].cols)
                        /\ ("reftable" \in Flags(p[1], p[2])) <=> (p[1].reftable # p[2].reftable)
                        /\ (p[1].refcols # p[2].refcols) => ("refcolumn" \in Flags(p[1], p[2]))
ASSUME PrintT(<<"STATS", ToJson([fks |-> Cardinality(Fks), pairs |-> Cardinality(Pairs)])>>)
ASSUME ndJsonSerialize(OutFile, SetToSeq({ [from |-> p[1], to |-> p[2], flags |-> SetToSeq(Flags(p[1], p[2]))] : p \in Pairs }))
====
