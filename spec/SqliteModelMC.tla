---- MODULE SqliteModelMC ----
\* Export configuration of SqliteModel.tla for one seed: every single edit forward (seed -> R), backward (R -> seed) and, in the
\* thorough tier, every two-edit pair; model obligations: seeds well-formed, WF closed under the exported edits, row semantics
\* well-defined (a rewritten column always has a default to take).
EXTENDS SqliteModel, Json, SequencesExt, Randomization
CONSTANTS SeedName, Two, OutFile, Sample
Seed == CASE SeedName = "Seed1" -> Seed1 [] SeedName = "Seed2" -> Seed2 [] SeedName = "Seed3" -> Seed3 [] SeedName = "Seed5" -> Seed5 [] SeedName = "Seed6" -> Seed6 [] OTHER -> Seed4
S1 == Succ(Seed)
Fwd == { <<Seed, R>> : R \in S1 }
Bwd == { <<R, Seed>> : R \in { X \in S1 : Seed \in Succ(X) } }   \* only edits that are themselves admissible (populated tables)
Two2 == IF Two THEN UNION { { <<Seed, R>> : R \in Succ(M) \ {Seed} } : M \in S1 } ELSE {}
Crs == { <<Seed, R>> : R \in Cross(Seed) }
\* two edits of the same table (a column added next to any other change of that table); Sample > 0 takes a random subset of that size
\* (TLC's RandomSubset, seeded by -seed), Sample = 0 all of them
Pick(S) == IF Sample = 0 \/ Cardinality(S) <= Sample THEN S ELSE RandomSubset(Sample, S)
Two2s == { <<Seed, R>> : R \in Pick(SameTable(Seed)) }
All == Fwd \cup Bwd \cup Two2 \cup Crs \cup Two2s
Refuse == { <<Seed, R>> : R \in { X \in Inadmissible(Seed) : WF(X) } }
ASSUME WF(Seed)
ASSUME \A p \in All : WF(p[1]) /\ WF(p[2])
ASSUME \A p \in All : \A t \in Present(p[1]) \cap Present(p[2]) : \A c \in Rewritten(p[1], p[2], t) : p[2][t].cols[c].dflt # "none"
ASSUME PrintT(<<"STATS", ToJson([succ |-> Cardinality(S1), cross |-> Cardinality(Crs), two |-> Cardinality(Two2s), refuse |-> Cardinality(Refuse), all |-> Cardinality(All)])>>)
ASSUME ndJsonSerialize(OutFile, SetToSeq({ [from |-> p[1], to |-> p[2]] : p \in All }))
ASSUME ndJsonSerialize("refuse.ndjson", SetToSeq({ [from |-> p[1], to |-> p[2]] : p \in Refuse }))
====
