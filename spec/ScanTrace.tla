---- MODULE ScanTrace ----
\* C->S for C08: the output structure of ANY scan of the real migrate.Scanner.  One observation per (input, option set):
\*   res in {"ok", "err", "panic", "timeout"}; stmts = sequence of [pos, len, textok] (textok: the statement text equals the
\*   input at pos, modulo the documented trimming of the delimiter); gaps = sequence of booleans, gap k (before statement k, the
\*   last one after the last statement) consists only of blanks, comments, delimiters, delimiter commands / directives, GO lines.
\* domain = "core" for the option sets the drivers use (verdict); "ext" for other option sets (reported, never a violation).
EXTENDS Naturals, Sequences, FiniteSets, TLC, Json
CONSTANT TraceFile
Trace == ndJsonDeserialize(TraceFile)
VARIABLES l, viol, ext
Ev == Trace[l]
Total(e)     == e.res \in {"ok", "err"}
InRange(e)   == \A k \in DOMAIN e.stmts : e.stmts[k].pos >= 0 /\ e.stmts[k].pos + e.stmts[k].len <= e.n
Increasing(e)== \A k \in DOMAIN e.stmts : k > 1 => e.stmts[k - 1].pos + e.stmts[k - 1].len <= e.stmts[k].pos
TextAtPos(e) == \A k \in DOMAIN e.stmts : e.stmts[k].textok
Lossless(e)  == \A k \in DOMAIN e.gaps : e.gaps[k]
Names(e) == (IF Total(e) THEN {} ELSE {"Total"})
            \cup (IF e.res # "ok" THEN {} ELSE
                    (IF InRange(e) THEN {} ELSE {"InRange"}) \cup (IF Increasing(e) THEN {} ELSE {"Increasing"})
                    \cup (IF TextAtPos(e) THEN {} ELSE {"TextAtPos"}) \cup (IF Lossless(e) THEN {} ELSE {"Lossless"}))
Init == l = 1 /\ viol = {} /\ ext = 0
Obs == /\ l <= Len(Trace) /\ l' = l + 1
       /\ LET bad == Names(Ev) IN
            IF Ev.domain = "core"
              THEN /\ viol' = (IF bad = {} \/ Cardinality(viol) >= 400 THEN viol ELSE viol \cup {<<Ev.id, CHOOSE x \in bad : TRUE>>}) /\ UNCHANGED ext
              ELSE /\ ext' = (IF bad = {} THEN ext ELSE ext + 1) /\ UNCHANGED viol
Next == /\ Obs
        /\ (l' = Len(Trace) + 1) => PrintT(<<"VIOLS", ToJson(viol'), "EXT", ext'>>)
Spec == Init /\ [][Next]_<<l, viol, ext>>
Accepted == TLCGet("stats").diameter - 1 = Len(Trace)
====
