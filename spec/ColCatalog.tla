---- MODULE ColCatalog ----
\* The columns of one table as MySQL / PostgreSQL leave them after the column clauses of ALTER TABLE (growth of PlanCatalog.tla towards
\* the column level; used by C17 at catalogue level: up followed by down gives back the columns the table started with).
\* A column is <<name, type, notnull, default, generated, comment>>, all strings: notnull is "t" / "f", default, generated and comment are
\* "" when absent.
\* Clauses are interpreted one by one; the well-formedness both engines insist on (a generated column has no default) is judged at the
\* end of a statement, because PostgreSQL runs the clauses of one ALTER TABLE in passes, not in the order they are written.
EXTENDS Naturals, FiniteSets, TLC
CONSTANTS Names, Types, Dflts, Gens, Comments      \* universes explored by Next (the trace specification takes values from the statements)
VARIABLES cols,     \* the columns
          idxs      \* the indexes: set of <<name, unique ("t" / "f"), key parts as written, e.g. "c,x desc">>
vars == <<cols, idxs>>
Has(c) == \E k \in cols : k[1] = c
Col(c) == CHOOSE k \in cols : k[1] = c
Put(k) == cols' = {j \in cols : j[1] # k[1]} \cup {k} /\ UNCHANGED idxs
WellFormedCol(k) == k[5] # "" => k[4] = ""
WellFormed == \A k \in cols : WellFormedCol(k)
NamesUnique == \A j, k \in cols : j[1] = k[1] => j = k

\* ADD COLUMN c <definition>
AddColumn(k) == ~Has(k[1]) /\ cols' = cols \cup {k} /\ UNCHANGED idxs
\* DROP COLUMN c (a table keeps at least one column)
DropColumn(c) == Has(c) /\ Cardinality(cols) > 1 /\ cols' = {k \in cols : k[1] # c} /\ UNCHANGED idxs
\* MySQL: MODIFY COLUMN c <definition> replaces the whole definition
Redefine(k) == Has(k[1]) /\ Put(k)
\* PostgreSQL: ALTER COLUMN c TYPE ty | SET NOT NULL | DROP NOT NULL | SET DEFAULT x | DROP DEFAULT | DROP EXPRESSION
SetType(c, ty)   == Has(c) /\ LET k == Col(c) IN Put(<<c, ty, k[3], k[4], k[5], k[6]>>)
SetNotNull(c)    == Has(c) /\ LET k == Col(c) IN Put(<<c, k[2], "t", k[4], k[5], k[6]>>)
DropNotNull(c)   == Has(c) /\ LET k == Col(c) IN Put(<<c, k[2], "f", k[4], k[5], k[6]>>)
SetDefault(c, x) == Has(c) /\ x # "" /\ LET k == Col(c) IN Put(<<c, k[2], k[3], x, k[5], k[6]>>)
DropDefault(c)   == Has(c) /\ LET k == Col(c) IN Put(<<c, k[2], k[3], "", k[5], k[6]>>)
\* PostgreSQL: COMMENT ON COLUMN t.c IS 'x' (a statement of its own; '' removes the comment); the column must exist at that point
SetComment(c, x) == Has(c) /\ LET k == Col(c) IN Put(<<c, k[2], k[3], k[4], k[5], x>>)
\* only a generated column has an expression to drop; nothing but dropping and adding the column brings one back
DropExpression(c) == Has(c) /\ Col(c)[5] # "" /\ LET k == Col(c) IN Put(<<c, k[2], k[3], k[4], "", k[6]>>)

\* ADD [UNIQUE] INDEX n (parts) / CREATE [UNIQUE] INDEX n ON t (parts): a fresh name, at least one key part
HasIdx(n) == \E k \in idxs : k[1] = n
AddIndex(k) == ~HasIdx(k[1]) /\ k[3] # "" /\ idxs' = idxs \cup {k} /\ UNCHANGED cols
\* DROP INDEX n: modifying an index is a drop followed by an add
DropIndex(n) == HasIdx(n) /\ idxs' = {k \in idxs : k[1] # n} /\ UNCHANGED cols
IdxNamesUnique == \A j, k \in idxs : j[1] = k[1] => j = k

IdxDefs == {"i", "j"} \X {"t", "f"} \X {"c", "c,x desc"}
Defs == { k \in Names \X Types \X {"t", "f"} \X Dflts \X Gens \X Comments : WellFormedCol(k) }
Init == (\E k \in Defs : cols = {k}) /\ idxs = {}
IdxNext == (\E k \in IdxDefs : AddIndex(k)) \/ (\E n \in {"i", "j"} : DropIndex(n))
AlterClauses == \/ \E c \in Names, ty \in Types : SetType(c, ty)
                \/ \E c \in Names : SetNotNull(c) \/ DropNotNull(c) \/ DropDefault(c) \/ DropExpression(c)
                \/ \E c \in Names, x \in Dflts : SetDefault(c, x)
                \/ \E c \in Names, x \in Comments : SetComment(c, x)
PGNext == AlterClauses \/ (\E k \in Defs : AddColumn(k)) \/ (\E c \in Names : DropColumn(c)) \/ IdxNext
MyNext == (\E k \in Defs : AddColumn(k) \/ Redefine(k)) \/ (\E c \in Names : DropColumn(c)) \/ IdxNext
PGSpec == Init /\ [][PGNext]_vars
MySpec == Init /\ [][MyNext]_vars
\* ---- properties of the model ---------------------------------------------------------------------------
\* why a plan that drops a generation expression cannot be reversible on PostgreSQL: while the column stays, the expression stays away
ExpressionNeverComesBack == [][\A k \in cols : k[5] = "" => \A j \in cols' : j[1] = k[1] => j[5] = ""]_vars
\* on MySQL every definition is one MODIFY COLUMN away from every other: a ModifyColumn can always be undone by the opposite one
OneStepBack == \A k \in cols : \A d \in Defs : d[1] = k[1] => ENABLED Redefine(d)
====
