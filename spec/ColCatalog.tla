---- MODULE ColCatalog ----
\* The columns of one table as MySQL / PostgreSQL leave them after the column clauses of ALTER TABLE (growth of PlanCatalog.tla towards
\* the column level; used by C17 at catalogue level: up followed by down gives back the columns the table started with).
\* A column is <<name, type, notnull, default, generated, comment>>, all strings: notnull is "t" / "f", default, generated and comment are
\* "" when absent.
\* Clauses are interpreted one by one; the well-formedness both engines insist on (a generated column has no default) is judged at the
\* end of a statement, because PostgreSQL runs the clauses of one ALTER TABLE in passes, not in the order they are written.
EXTENDS Naturals, FiniteSets, Sequences, TLC
CONSTANTS Names, Types, Dflts, Gens, Comments      \* universes explored by Next (the trace specification takes values from the statements)
VARIABLES cols,     \* the columns
          idxs      \* the indexes: set of <<name, unique ("t" / "f"), key parts, kind>>, key parts = sequence of <<column, "asc" | "desc">>,
                    \* kind = "c" for an index owned by a UNIQUE constraint of the same name (PostgreSQL), "i" otherwise
vars == <<cols, idxs>>
Has(c) == \E k \in cols : k[1] = c
Col(c) == CHOOSE k \in cols : k[1] = c
Put(k) == cols' = {j \in cols : j[1] # k[1]} \cup {k} /\ UNCHANGED idxs
WellFormedCol(k) == k[5] # "" => k[4] = ""
WellFormed == \A k \in cols : WellFormedCol(k)
NamesUnique == \A j, k \in cols : j[1] = k[1] => j = k

\* ADD COLUMN c <definition>
AddColumn(k) == ~Has(k[1]) /\ cols' = cols \cup {k} /\ UNCHANGED idxs
\* DROP COLUMN c (a table keeps at least one column).  What happens to the indexes that use the column depends on the engine:
\* MySQL takes the column out of every index and removes an index that has no column left; PostgreSQL drops every index that uses it.
PartCols(k) == { k[3][i][1] : i \in DOMAIN k[3] }
Shrunk(k, c) == SelectSeq(k[3], LAMBDA p : p[1] # c)
DropColumnMy(c) == /\ Has(c) /\ Cardinality(cols) > 1 /\ cols' = {k \in cols : k[1] # c}
                   /\ idxs' = { <<k[1], k[2], Shrunk(k, c), k[4]>> : k \in {j \in idxs : Shrunk(j, c) # <<>>} }
DropColumnPG(c) == /\ Has(c) /\ Cardinality(cols) > 1 /\ cols' = {k \in cols : k[1] # c}
                   /\ idxs' = {k \in idxs : c \notin PartCols(k)}
\* MySQL: MODIFY COLUMN c <definition> replaces the whole definition
Redefine(k) == Has(k[1]) /\ Put(k)
\* PostgreSQL: ALTER COLUMN c TYPE ty | SET NOT NULL | DROP NOT NULL | SET DEFAULT x | DROP DEFAULT | DROP EXPRESSION
SetType(c, ty)   == Has(c) /\ LET k == Col(c) IN Put(<<c, ty, k[3], k[4], k[5], k[6]>>)
SetNotNull(c)    == Has(c) /\ LET k == Col(c) IN Put(<<c, k[2], "t", k[4], k[5], k[6]>>)
DropNotNull(c)   == Has(c) /\ LET k == Col(c) IN Put(<<c, k[2], "f", k[4], k[5], k[6]>>)
SetDefault(c, x) == Has(c) /\ x # "" /\ LET k == Col(c) IN Put(<<c, k[2], k[3], x, k[5], k[6]>>)
DropDefault(c)   == Has(c) /\ LET k == Col(c) IN Put(<<c, k[2], k[3], "", k[5], k[6]>>)
\* PostgreSQL: COMMENT ON COLUMN t.c IS 'x' (a statement of its own; '' removes the comment); the column must exist at that point
SetComment(c, x) == Has(c) /\ LET k == Col(c) IN Put(<<c, k[2], k[3], k[4], k[5], x>>)
\* only a generated column has an expression to drop; nothing but dropping and adding the column brings one back
DropExpression(c) == Has(c) /\ Col(c)[5] # "" /\ LET k == Col(c) IN Put(<<c, k[2], k[3], k[4], "", k[6]>>)

\* ADD [UNIQUE] INDEX n (parts) / CREATE [UNIQUE] INDEX n ON t (parts): a fresh name, at least one key part, over existing columns
HasIdx(n) == \E k \in idxs : k[1] = n
AddIndex(k) == /\ ~HasIdx(k[1]) /\ k[3] # <<>> /\ PartCols(k) \subseteq {c[1] : c \in cols} /\ k[4] = "i"
               /\ idxs' = idxs \cup {k} /\ UNCHANGED cols
\* DROP INDEX n: modifying an index is a drop followed by an add; an index that a constraint owns cannot be dropped this way
DropIndex(n) == (\E k \in idxs : k[1] = n /\ k[4] = "i") /\ idxs' = {k \in idxs : k[1] # n} /\ UNCHANGED cols
\* PostgreSQL: ALTER TABLE t ADD CONSTRAINT n UNIQUE (columns) creates the constraint and its index; DROP CONSTRAINT n removes both
AddConstraint(k) == /\ ~HasIdx(k[1]) /\ k[3] # <<>> /\ PartCols(k) \subseteq {c[1] : c \in cols} /\ k[2] = "t" /\ k[4] = "c"
                    /\ idxs' = idxs \cup {k} /\ UNCHANGED cols
DropConstraint(n) == (\E k \in idxs : k[1] = n /\ k[4] = "c") /\ idxs' = {k \in idxs : k[1] # n} /\ UNCHANGED cols
IdxNamesUnique == \A j, k \in idxs : j[1] = k[1] => j = k

IdxDefs == {"i", "j"} \X {"t", "f"} \X { <<<<"c", "asc">>>>, <<<<"c", "asc">>, <<"x", "desc">>>>, <<<<"x", "asc">>>> } \X {"i", "c"}
\* an index never mentions a column the table does not have
IdxColumnsExist == \A k \in idxs : PartCols(k) \subseteq {c[1] : c \in cols} /\ k[3] # <<>>
\* a constraint-owned index is unique
ConstraintsUnique == \A k \in idxs : k[4] = "c" => k[2] = "t"
Defs == { k \in Names \X Types \X {"t", "f"} \X Dflts \X Gens \X Comments : WellFormedCol(k) }
Init == (\E k \in Defs : cols = {k}) /\ idxs = {}
IdxNext == (\E k \in IdxDefs : AddIndex(k)) \/ (\E n \in {"i", "j"} : DropIndex(n))
ConstraintNext == (\E k \in IdxDefs : AddConstraint(k)) \/ (\E n \in {"i", "j"} : DropConstraint(n))
AlterClauses == \/ \E c \in Names, ty \in Types : SetType(c, ty)
                \/ \E c \in Names : SetNotNull(c) \/ DropNotNull(c) \/ DropDefault(c) \/ DropExpression(c)
                \/ \E c \in Names, x \in Dflts : SetDefault(c, x)
                \/ \E c \in Names, x \in Comments : SetComment(c, x)
PGNext == AlterClauses \/ (\E k \in Defs : AddColumn(k)) \/ (\E c \in Names : DropColumnPG(c)) \/ IdxNext \/ ConstraintNext
MyNext == (\E k \in Defs : AddColumn(k) \/ Redefine(k)) \/ (\E c \in Names : DropColumnMy(c)) \/ IdxNext
PGSpec == Init /\ [][PGNext]_vars
MySpec == Init /\ [][MyNext]_vars
\* ---- properties of the model ---------------------------------------------------------------------------
\* why a plan that drops a generation expression cannot be reversible on PostgreSQL: while the column stays, the expression stays away
ExpressionNeverComesBack == [][\A k \in cols : k[5] = "" => \A j \in cols' : j[1] = k[1] => j[5] = ""]_vars
\* on MySQL every definition is one MODIFY COLUMN away from every other: a ModifyColumn can always be undone by the opposite one
OneStepBack == \A k \in cols : \A d \in Defs : d[1] = k[1] => ENABLED Redefine(d)
====
