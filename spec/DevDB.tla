---- MODULE DevDB ----
\* The dev-database protocol of every command that takes --dev-url (C14): migrate diff / validate / lint, schema apply / diff with
\* SQL or HCL sources.  sql/migrate (Executor.Replay, Snapshoter / CleanChecker), sql/sqlite/driver.go (Snapshot / CheckClean / restore),
\* sql/internal/sqlx/dev.go (normalisation on the dev database).
\*   dev   : set of objects in the dev database ({} = clean);  dev0 = its content when the command started
\*   files : the migration directory (abstractly: a version counter that only WritePlan may bump)
\* One action per protocol step; Fail steps model a failing replay statement / normalisation at any position.
EXTENDS Naturals, Sequences, FiniteSets, TLC
CONSTANTS MaxStmts, UserObjects      \* UserObjects: what a dirty dev database holds before the command
VARIABLES cmd, needs, dev, dev0, files, files0, pc, i, n, failAt, rc
vars == <<cmd, needs, dev, dev0, files, files0, pc, i, n, failAt, rc>>
Cmds == {"migrate-diff", "migrate-validate", "migrate-lint", "schema-apply", "schema-diff"}
Init == /\ cmd \in Cmds /\ needs \in BOOLEAN            \* needs: this invocation replays SQL / a directory on the dev database
        /\ dev0 \in {{}, UserObjects} /\ dev = dev0
        /\ files0 = 0 /\ files = 0
        /\ n \in 0..MaxStmts /\ failAt \in 0..MaxStmts /\ failAt <= n
        /\ pc = "start" /\ i = 1 /\ rc = "running"
\* the cleanliness check comes before anything is written
CheckClean == /\ pc = "start"
              /\ IF ~needs THEN pc' = "work" /\ UNCHANGED rc
                 ELSE IF dev # {} THEN pc' = "done" /\ rc' = "notclean"
                 ELSE pc' = "replay" /\ UNCHANGED rc
              /\ UNCHANGED <<cmd, needs, dev, dev0, files, files0, i, n, failAt>>
ReplayStmt == /\ pc = "replay" /\ i <= n /\ i # failAt
              /\ dev' = dev \cup {<<"obj", i>>} /\ i' = i + 1
              /\ UNCHANGED <<cmd, needs, dev0, files, files0, pc, n, failAt, rc>>
ReplayFail == /\ pc = "replay" /\ i = failAt
              /\ pc' = "restore" /\ rc' = "error"
              /\ UNCHANGED <<cmd, needs, dev, dev0, files, files0, i, n, failAt>>
ReplayDone == /\ pc = "replay" /\ i > n /\ pc' = "restore" /\ rc' = "ok"
              /\ UNCHANGED <<cmd, needs, dev, dev0, files, files0, i, n, failAt>>
\* the deferred restore: the dev database is handed back empty, whatever happened
Restore == /\ pc = "restore" /\ dev' = {} /\ pc' = (IF rc = "ok" THEN "work" ELSE "done")
           /\ UNCHANGED <<cmd, needs, dev0, files, files0, i, n, failAt, rc>>
\* the command's own work after the replay (diffing, linting, applying to the target, printing)
Work == /\ pc = "work"
        /\ files' = IF cmd = "migrate-diff" /\ rc # "error" THEN files + 1 ELSE files
        /\ rc' = IF rc = "running" THEN "ok" ELSE rc
        /\ pc' = "done"
        /\ UNCHANGED <<cmd, needs, dev, dev0, files0, i, n, failAt>>
Next == CheckClean \/ ReplayStmt \/ ReplayFail \/ ReplayDone \/ Restore \/ Work
Spec == Init /\ [][Next]_vars
\* ---- C14 ------------------------------------------------------------------------------------------
Untouched == (pc = "done" /\ dev0 # {}) => dev = dev0
HandedBackEmpty == (pc = "done" /\ dev0 = {}) => dev = {}
RefusedIfDirty == (pc = "done" /\ dev0 # {} /\ needs) => rc = "notclean"
NoWriteBeforeCheck == (pc = "start") => dev = dev0
DirOnlyByDiff == (pc = "done" /\ files # files0) => (cmd = "migrate-diff" /\ rc = "ok")
====
