---- MODULE Lock ----
\* The advisory lock of the SQLite driver (sql/sqlite/driver.go: Driver.Lock, acquireLock), as `migrate apply` processes use it
\* (cmd/atlas/internal/cmdapi/migrate_oss.go: Lock(ctx, "atlas_migrate_execute", lock-timeout) ... defer unlock()).
\* NOT one of the listed properties: part of the growth of the specification (DESIGN 9.10).
\*
\*   lock file  : absent, or holds an expiry time (now + timeout at the moment of creation)
\*   Lock(p)    : two steps, as in the code: Check (os.ReadFile: absent, or expired => go on; still valid => refuse) and
\*                Create (os.Create truncates whatever is there and writes a new expiry)
\*   Unlock(p)  : os.Remove(path) - whoever's file it is
\* With Atomic = TRUE the model describes the obvious repair (create with O_EXCL in one step when absent, compare-and-replace when
\* expired); it is what MutualExclusion needs and is checked as a design alternative, not bound to code.
EXTENDS Naturals, FiniteSets, Sequences, TLC
CONSTANTS Procs, Timeout, MaxTime, Atomic
Absent == 0
VARIABLES file,    \* Absent or expiry time (> 0)
          now,     \* clock (1 ..)
          pc,      \* p -> "idle" | "checked" | "holding" | "refused" | "done"
          hist
vars == <<file, now, pc, hist>>
Init == file = Absent /\ now = 1 /\ pc = [p \in Procs |-> "idle"] /\ hist = <<>>
Log(a, p) == hist' = Append(hist, [a |-> a, p |-> p])
Valid == file # Absent /\ file > now
Check(p) == /\ ~Atomic /\ pc[p] = "idle"
            /\ pc' = [pc EXCEPT ![p] = IF Valid THEN "refused" ELSE "checked"]
            /\ UNCHANGED <<file, now>> /\ Log("check", p)
Create(p) == /\ ~Atomic /\ pc[p] = "checked"
             /\ file' = now + Timeout /\ pc' = [pc EXCEPT ![p] = "holding"]
             /\ UNCHANGED now /\ Log("create", p)
AtomicLock(p) == /\ Atomic /\ pc[p] = "idle"
                 /\ IF Valid THEN pc' = [pc EXCEPT ![p] = "refused"] /\ UNCHANGED file
                    ELSE file' = now + Timeout /\ pc' = [pc EXCEPT ![p] = "holding"]
                 /\ UNCHANGED now /\ Log("lock", p)
Unlock(p) == /\ pc[p] = "holding" /\ file' = Absent /\ pc' = [pc EXCEPT ![p] = "done"]
             /\ UNCHANGED now /\ Log("unlock", p)
Tick == /\ now < MaxTime /\ now' = now + 1 /\ UNCHANGED <<file, pc>> /\ Log("tick", "-")
Next == Tick \/ \E p \in Procs : Check(p) \/ Create(p) \/ AtomicLock(p) \/ Unlock(p)
Spec == Init /\ [][Next]_vars
Holders == {p \in Procs : pc[p] = "holding"}
\* at most one process works on the database at a time
MutualExclusion == Cardinality(Holders) <= 1
\* ... as long as no holder outlives its own lock-timeout (the expiry is the holder's declared bound)
MutualExclusionBeforeExpiry == (Cardinality(Holders) > 1) => \E p \in Holders : TRUE /\ file # Absent /\ file <= now
\* a holder's lock file is there while it holds (nobody removes somebody else's lock)
HolderHasFile == \A p \in Procs : pc[p] = "holding" => file # Absent
View == <<file, now, pc>>
====
