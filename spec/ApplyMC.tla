---- MODULE ApplyMC ----
\* Exhaustive configurations of Apply.tla: every directory shape up to MaxF files x MaxS statements.
EXTENDS Apply
CONSTANTS MaxF, MaxS
ShapeSet == UNION { [1..nf -> { [k \in 1..n |-> k] : n \in 0..MaxS }] : nf \in 1..MaxF }   \* a file may hold no statement at all (comments only)
\* C12: one file of every length up to MaxS, optionally followed by a second file
EditShapes == { <<[k \in 1..n |-> k]>> : n \in 1..MaxS } \cup { <<[k \in 1..n |-> k], <<1>>>> : n \in 1..MaxS }
====
