---- MODULE HCLTrace ----
\* C15: the HCL round trip is an observation (stuttering) step of the catalogue, for every dialect and every concrete type that can be
\* bound to the model's opaque type ids; FormatType / ParseType is a fixpoint for every type of the dialect.
\* One observation per (dialect, type instance) / (dialect, model state with rotated types) / (dialect, attribute showcase document).
EXTENDS Naturals, Sequences, FiniteSets, TLC, Json
CONSTANT TraceFile
Trace == ndJsonDeserialize(TraceFile)
VARIABLES l, viol
Ev == Trace[l]
Names(e) == IF e.skipped # "" THEN {}
            ELSE (IF e.err = "" THEN {} ELSE {"RoundTripError"})
                 \cup (IF e.err # "" \/ e.fixpoint THEN {} ELSE {"FormatParseNotFixpoint"})
                 \cup (IF e.err # "" \/ (e.diff_fwd = 0 /\ e.diff_bwd = 0) THEN {} ELSE {"RoundTripDiffNotEmpty"})
                 \cup (IF e.err # "" \/ e.stable THEN {} ELSE {"MarshalNotStable"})
Init == l = 1 /\ viol = {}
Obs == /\ l <= Len(Trace) /\ l' = l + 1
       /\ viol' = viol \cup { <<Ev.id, n>> : n \in Names(Ev) }
Next == /\ Obs
        /\ (l' = Len(Trace) + 1) => PrintT(<<"VIOLS", ToJson(viol')>>)
Spec == Init /\ [][Next]_<<l, viol>>
Accepted == TLCGet("stats").diameter - 1 = Len(Trace)
====
