---- MODULE ExportTrace ----
\* C03: schema exports are observation (stuttering) steps of the catalogue: the HCL document and the SQL script Atlas produces for a
\* database describe exactly that database.  One observation per (state, DDL spelling):
\*   orig      projection of the database the harness created;   from_hcl / from_sql   projection of a fresh database re-created from
\*   the evaluated HCL export / from the SQL export;   diff_fwd / diff_bwd   number of changes between the inspected schema and the
\*   evaluated HCL in both directions;   fresh_diff   number of changes planned between the database re-created from the HCL export and that
\*   same document (applying an export to an empty database converges);   stable   two inspections give byte-identical HCL.
EXTENDS SqliteModel, Json
CONSTANT TraceFile
Trace == ndJsonDeserialize(TraceFile)
VARIABLES l, viol
Ev == Trace[l]
SetOf(s) == { s[k] : k \in DOMAIN s }
NormT(T) == [T EXCEPT !.idx = SetOf(@), !.fks = SetOf(@), !.chk = SetOf(@)]
Norm(S) == [t \in DOMAIN S |-> NormT(S[t])]
Same(A, B) == DOMAIN A = DOMAIN B /\ Norm(A) = Norm(B)
Names(e) ==
  IF e.skipped # "" THEN {}
  ELSE (IF e.err = "" THEN {} ELSE {"ExportError"})
       \cup (IF e.err # "" \/ (e.diff_fwd = 0 /\ e.diff_bwd = 0) THEN {} ELSE {"HCLDiffNotEmpty"})
       \cup (IF e.err # "" \/ e.fresh_diff = 0 THEN {} ELSE {"ReplanOnRecreatedNotEmpty"})
       \cup (IF e.err # "" \/ e.stable THEN {} ELSE {"InspectNotDeterministic"})
       \cup (IF e.err # "" \/ Same(e.from_hcl, e.orig) THEN {} ELSE {"HCLDoesNotRecreate"})
       \cup (IF e.err # "" \/ Same(e.from_sql, e.orig) THEN {} ELSE {"SQLDoesNotRecreate"})
Init == l = 1 /\ viol = {}
Obs == /\ l <= Len(Trace) /\ l' = l + 1
       /\ viol' = viol \cup { <<Ev.id, n>> : n \in Names(Ev) }
Next == /\ Obs
        /\ (l' = Len(Trace) + 1) => PrintT(<<"VIOLS", ToJson(viol')>>)
Spec == Init /\ [][Next]_<<l, viol>>
Accepted == TLCGet("stats").diameter - 1 = Len(Trace)
====
