---- MODULE SchemaModel ----
\* The hub of the schema-algebra properties: an abstract catalogue, the elementary-edit catalogue as a successor relation,
\* the declarative expected change set DiffSpec(S, R) and the obligation Exact (complete AND minimal) that makes it a
\* trustworthy oracle for C02 (and, with the engine binding, for C01 / C03 / C05 / C17 / C19).
\*   state  : table name -> [cols, pk, idx, fks, chk, comment]
\*   cols   : column name -> [type, null, dflt]   (type "-" = absent); types / defaults / check expressions are OPAQUE ids that
\*            the binding instantiates per dialect (T1 -> int/integer, T2 -> varchar/text, d1 -> the literal '1', e1/e2 -> expressions)
\*   pk     : sequence of column names (order matters)
\*   idx    : set of [name, parts (sequence of [c, desc]), unique]
\*   fks    : set of [name, col, ref, refcol, onupd, ondel]
\*   chk    : set of [name, expr]
\*   comment: "" or an id (table attribute; MySQL / PostgreSQL only)
EXTENDS Naturals, Sequences, FiniteSets, TLC
Tn == {"t1", "t2"}
Cn == {"a", "b", "c"}
In == {"i1", "i2"}
Types == {"T1", "T2"}
Dflts == {"none", "d1"}
Acts  == {"NO ACTION", "CASCADE", "RESTRICT"}
NoCol == [type |-> "-", null |-> FALSE, dflt |-> "none"]
NoIdx == [name |-> "-", parts |-> <<>>, unique |-> FALSE]
NoFk  == [name |-> "-", col |-> "-", ref |-> "-", refcol |-> "-", onupd |-> "-", ondel |-> "-"]
NoChk == [name |-> "-", expr |-> "-"]
Exprs == {"e1", "e2"}
Kn == {"k1", "k2"}
Comments == {"", "c1", "c2"}
Part(c, d) == [c |-> c, desc |-> d]
PCols(p) == [k \in DOMAIN p |-> p[k].c]

ColRec == [type : Types, null : BOOLEAN, dflt : Dflts]
Seqs(S, n) == UNION { [1..k -> S] : k \in 0..n }
Inj(q) == \A x, y \in DOMAIN q : x # y => q[x] # q[y]

Cols(T)   == {c \in Cn : T.cols[c] # NoCol}
Absent == [cols |-> [c \in Cn |-> NoCol], pk |-> <<>>, idx |-> {}, fks |-> {}, chk |-> {}, comment |-> ""]
Present(S) == {t \in Tn : S[t] # Absent}

\* ---- well-formedness (what every dialect accepts) ------------------------------------
WFT(S, t) == LET T == S[t] IN
   /\ Cols(T) # {}
   /\ Inj(T.pk) /\ \A k \in DOMAIN T.pk : T.pk[k] \in Cols(T) /\ ~T.cols[T.pk[k]].null
   /\ \A x \in T.idx : Inj(PCols(x.parts)) /\ x.parts # <<>> /\ \A k \in DOMAIN x.parts : x.parts[k].c \in Cols(T)
   /\ \A x, y \in T.idx : x.name = y.name => x = y
   /\ \A g \in T.fks : /\ g.col \in Cols(T) /\ g.ref \in Present(S)
                       /\ S[g.ref].pk = <<g.refcol>>
   /\ \A g, h \in T.fks : g.name = h.name => g = h
   /\ \A g, h \in T.chk : g.name = h.name => g = h
WF(S) == \A t \in Present(S) : WFT(S, t)

\* ---- elementary edits as a successor relation ----------------------------------------
With(S, t, T) == [S EXCEPT ![t] = T]
NewTables == { [cols |-> [c \in Cn |-> IF c = "a" THEN [type |-> "T1", null |-> FALSE, dflt |-> "none"] ELSE NoCol],
                pk |-> p, idx |-> {}, fks |-> {}, chk |-> {}, comment |-> ""] : p \in {<<>>, <<"a">>} }
AddTableS(S)   == { With(S, t, T) : t \in Tn \ Present(S), T \in NewTables }
DropTableS(S)  == { With(S, t, Absent) : t \in Present(S) }
AddColumnS(S)  == UNION { { With(S, t, [S[t] EXCEPT !.cols[c] = r]) : c \in Cn \ Cols(S[t]),
                                    r \in {x \in ColRec : x.null \/ x.dflt # "none"} } : t \in Present(S) }
DropColumnS(S) == UNION { { With(S, t, [S[t] EXCEPT !.cols[c] = NoCol]) : c \in {d \in Cols(S[t]) : Cardinality(Cols(S[t])) > 1} } : t \in Present(S) }
ModColumnS(S)  == UNION { UNION { { With(S, t, [S[t] EXCEPT !.cols[c] = r]) : r \in ColRec \ {S[t].cols[c]} }
                                  : c \in Cols(S[t]) } : t \in Present(S) }
Parts == { Part(c, d) : c \in Cn, d \in BOOLEAN }
IdxRecs == { [name |-> n, parts |-> p, unique |-> u] : n \in In, p \in Seqs(Parts, 2) \ {<<>>}, u \in BOOLEAN }
AddIndexS(S)   == UNION { { With(S, t, [S[t] EXCEPT !.idx = @ \cup {x}]) :
                             x \in {y \in IdxRecs : \A z \in S[t].idx : z.name # y.name} } : t \in Present(S) }
DropIndexS(S)  == UNION { { With(S, t, [S[t] EXCEPT !.idx = @ \ {x}]) : x \in S[t].idx } : t \in Present(S) }
ModIndexS(S)   == UNION { UNION { { With(S, t, [S[t] EXCEPT !.idx = (@ \ {x}) \cup {y}]) :
                                      y \in {z \in IdxRecs : z.name = x.name /\ z # x} } : x \in S[t].idx } : t \in Present(S) }
SetPKS(S)      == UNION { { With(S, t, [S[t] EXCEPT !.pk = p]) : p \in Seqs(Cn, 2) \ {S[t].pk} } : t \in Present(S) }
FkRecs == { [name |-> "f1", col |-> c, ref |-> r, refcol |-> rc, onupd |-> u, ondel |-> a] : c \in Cn, r \in Tn, rc \in Cn, u \in Acts, a \in Acts }
ChkRecs == { [name |-> n, expr |-> e] : n \in Kn, e \in Exprs }
AddChkS(S)     == UNION { { With(S, t, [S[t] EXCEPT !.chk = @ \cup {x}]) : x \in {y \in ChkRecs : \A z \in S[t].chk : z.name # y.name} } : t \in Present(S) }
DropChkS(S)    == UNION { { With(S, t, [S[t] EXCEPT !.chk = @ \ {x}]) : x \in S[t].chk } : t \in Present(S) }
ModChkS(S)     == UNION { UNION { { With(S, t, [S[t] EXCEPT !.chk = (@ \ {x}) \cup {y}]) : y \in {z \in ChkRecs : z.name = x.name /\ z # x} } : x \in S[t].chk } : t \in Present(S) }
SetCommentS(S) == UNION { { With(S, t, [S[t] EXCEPT !.comment = m]) : m \in Comments \ {S[t].comment} } : t \in Present(S) }
AddFKS(S)      == UNION { { With(S, t, [S[t] EXCEPT !.fks = @ \cup {g}]) : g \in {h \in FkRecs : S[t].fks = {}} } : t \in Present(S) }
DropFKS(S)     == UNION { { With(S, t, [S[t] EXCEPT !.fks = @ \ {g}]) : g \in S[t].fks } : t \in Present(S) }
ModFKS(S)      == UNION { UNION { { With(S, t, [S[t] EXCEPT !.fks = (@ \ {g}) \cup {h}]) : h \in {x \in FkRecs : x # g} }
                                  : g \in S[t].fks } : t \in Present(S) }
Succ(S) == { X \in AddTableS(S) \cup DropTableS(S) \cup AddColumnS(S) \cup DropColumnS(S) \cup ModColumnS(S)
                  \cup AddIndexS(S) \cup DropIndexS(S) \cup ModIndexS(S) \cup SetPKS(S)
                  \cup AddFKS(S) \cup DropFKS(S) \cup ModFKS(S)
                  \cup AddChkS(S) \cup DropChkS(S) \cup ModChkS(S) \cup SetCommentS(S) : WF(X) }

\* ---- the reference differ (payload-carrying change records) --------------------------
ColFlags(x, y) == (IF x.null # y.null THEN {"null"} ELSE {}) \cup (IF x.type # y.type THEN {"type"} ELSE {})
                  \cup (IF x.dflt # y.dflt THEN {"default"} ELSE {})
IdxBy(T, n) == CHOOSE x \in T.idx : x.name = n
IdxNames(T) == {x.name : x \in T.idx}
IdxFlags(x, y) == (IF x.unique # y.unique THEN {"unique"} ELSE {}) \cup (IF x.parts # y.parts THEN {"parts"} ELSE {})
FkBy(T, n) == CHOOSE x \in T.fks : x.name = n
FkNames(T) == {x.name : x \in T.fks}
FkFlags(x, y) == (IF x.col # y.col THEN {"column"} ELSE {})
                 \cup (IF x.ref # y.ref THEN {"reftable", "refcolumn"} ELSE IF x.refcol # y.refcol THEN {"refcolumn"} ELSE {})
                 \cup (IF x.onupd # y.onupd THEN {"onupdate"} ELSE {})
                 \cup (IF x.ondel # y.ondel THEN {"ondelete"} ELSE {})
ChkBy(T, n) == CHOOSE x \in T.chk : x.name = n
ChkNames(T) == {x.name : x \in T.chk}
Chg(k, n, f) == [k |-> k, n |-> n, f |-> f, col |-> NoCol, pk |-> <<>>, idx |-> NoIdx, fk |-> NoFk, chk |-> NoChk, comment |-> ""]
TableDiff(A, B) ==
     { Chg("DropColumn", c, {}) : c \in Cols(A) \ Cols(B) }
\cup { [Chg("AddColumn", c, {}) EXCEPT !.col = B.cols[c]] : c \in Cols(B) \ Cols(A) }
\cup { [Chg("ModifyColumn", c, ColFlags(A.cols[c], B.cols[c])) EXCEPT !.col = B.cols[c]] :
          c \in {d \in Cols(A) \cap Cols(B) : A.cols[d] # B.cols[d]} }
\cup (IF A.pk = B.pk THEN {} ELSE IF A.pk = <<>> THEN {[Chg("AddPK", "pk", {}) EXCEPT !.pk = B.pk]}
      ELSE IF B.pk = <<>> THEN {Chg("DropPK", "pk", {})}
      ELSE {[Chg("ModifyPK", "pk", {"parts"}) EXCEPT !.pk = B.pk]})
\cup { Chg("DropIndex", n, {}) : n \in IdxNames(A) \ IdxNames(B) }
\cup { [Chg("AddIndex", n, {}) EXCEPT !.idx = IdxBy(B, n)] : n \in IdxNames(B) \ IdxNames(A) }
\cup { [Chg("ModifyIndex", n, IdxFlags(IdxBy(A, n), IdxBy(B, n))) EXCEPT !.idx = IdxBy(B, n)] :
          n \in {m \in IdxNames(A) \cap IdxNames(B) : IdxBy(A, m) # IdxBy(B, m)} }
\cup { Chg("DropFK", n, {}) : n \in FkNames(A) \ FkNames(B) }
\cup { [Chg("AddFK", n, {}) EXCEPT !.fk = FkBy(B, n)] : n \in FkNames(B) \ FkNames(A) }
\cup { [Chg("ModifyFK", n, FkFlags(FkBy(A, n), FkBy(B, n))) EXCEPT !.fk = FkBy(B, n)] :
          n \in {m \in FkNames(A) \cap FkNames(B) : FkBy(A, m) # FkBy(B, m)} }
\cup { Chg("DropCheck", n, {}) : n \in ChkNames(A) \ ChkNames(B) }
\cup { [Chg("AddCheck", n, {}) EXCEPT !.chk = ChkBy(B, n)] : n \in ChkNames(B) \ ChkNames(A) }
\cup { [Chg("ModifyCheck", n, {}) EXCEPT !.chk = ChkBy(B, n)] : n \in {m \in ChkNames(A) \cap ChkNames(B) : ChkBy(A, m) # ChkBy(B, m)} }
\cup (IF A.comment = B.comment THEN {} ELSE {[Chg("Comment", "comment", {}) EXCEPT !.comment = B.comment]})
DiffSpec(S, R) ==
     { [k |-> "DropTable", t |-> t, ch |-> {}, to |-> Absent] : t \in Present(S) \ Present(R) }
\cup { [k |-> "AddTable",  t |-> t, ch |-> {}, to |-> R[t]]   : t \in Present(R) \ Present(S) }
\cup { [k |-> "ModifyTable", t |-> t, ch |-> TableDiff(S[t], R[t]), to |-> Absent] :
          t \in {u \in Present(S) \cap Present(R) : S[u] # R[u]} }

\* ---- diff policy (C19): change kinds disabled by the policy never appear, at any nesting level; everything else still does ---
DiffSpecSkip(S, R, K) ==
  LET D == DiffSpec(S, R) IN
    { x \in D : x.k \notin K /\ x.k # "ModifyTable" }
    \cup { [x EXCEPT !.ch = { y \in x.ch : y.k \notin K }] : x \in { z \in D : z.k = "ModifyTable" /\ "ModifyTable" \notin K /\ { y \in z.ch : y.k \notin K } # {} } }
KindsOf(D) == { x.k : x \in D } \cup UNION { { y.k : y \in x.ch } : x \in { z \in D : z.k = "ModifyTable" } }
SkipSound(S, R, K) ==
  LET D == DiffSpec(S, R)  F == DiffSpecSkip(S, R, K) IN
    /\ KindsOf(F) \cap K = {}
    /\ \A x \in D : (x.k # "ModifyTable" /\ x.k \notin K) => x \in F
    /\ \A x \in D : (x.k = "ModifyTable" /\ "ModifyTable" \notin K) =>
          \A y \in x.ch : y.k \notin K => \E z \in F : z.k = "ModifyTable" /\ z.t = x.t /\ y \in z.ch

\* ---- applying a change set (independent of the second argument of DiffSpec) ----------
Ch(D, kind, name) == {x \in D : x.k = kind /\ x.n = name}
One(X) == CHOOSE x \in X : TRUE
ApplyT(A, D) ==
  [ cols |-> [c \in Cn |-> IF Ch(D, "DropColumn", c) # {} THEN NoCol
                           ELSE IF Ch(D, "AddColumn", c) # {} THEN One(Ch(D, "AddColumn", c)).col
                           ELSE IF Ch(D, "ModifyColumn", c) # {} THEN One(Ch(D, "ModifyColumn", c)).col
                           ELSE A.cols[c]],
    pk   |-> IF \E x \in D : x.k \in {"AddPK", "ModifyPK", "DropPK"} THEN One({x \in D : x.k \in {"AddPK", "ModifyPK", "DropPK"}}).pk ELSE A.pk,
    idx  |-> {x \in A.idx : Ch(D, "DropIndex", x.name) = {} /\ Ch(D, "ModifyIndex", x.name) = {}}
             \cup {x.idx : x \in {y \in D : y.k \in {"AddIndex", "ModifyIndex"}}},
    fks  |-> {x \in A.fks : Ch(D, "DropFK", x.name) = {} /\ Ch(D, "ModifyFK", x.name) = {}}
             \cup {x.fk : x \in {y \in D : y.k \in {"AddFK", "ModifyFK"}}},
    chk  |-> {x \in A.chk : Ch(D, "DropCheck", x.name) = {} /\ Ch(D, "ModifyCheck", x.name) = {}}
             \cup {x.chk : x \in {y \in D : y.k \in {"AddCheck", "ModifyCheck"}}},
    comment |-> IF \E x \in D : x.k = "Comment" THEN One({x \in D : x.k = "Comment"}).comment ELSE A.comment ]
ApplyAll(S, D) == [t \in Tn |-> IF \E x \in D : x.k = "DropTable" /\ x.t = t THEN Absent
                                ELSE IF \E x \in D : x.k = "AddTable" /\ x.t = t THEN One({x \in D : x.k = "AddTable" /\ x.t = t}).to
                                ELSE IF \E x \in D : x.k = "ModifyTable" /\ x.t = t THEN ApplyT(S[t], One({x \in D : x.k = "ModifyTable" /\ x.t = t}).ch)
                                ELSE S[t]]
Without(D, x) == IF x.k # "ModifyTable" THEN {D \ {x}}
                 ELSE { (D \ {x}) \cup (IF x.ch \ {y} = {} THEN {} ELSE {[x EXCEPT !.ch = @ \ {y}]}) : y \in x.ch }
Exact(S, R) == LET D == DiffSpec(S, R) IN
                 /\ ApplyAll(S, D) = R
                 /\ \A x \in D : \A D2 \in Without(D, x) : ApplyAll(S, D2) # R

\* ---- seeds, bounded reachability, export ---------------------------------------------
Empty == [t \in Tn |-> Absent]
Seed1 == [Empty EXCEPT !["t1"] = [cols |-> [c \in Cn |-> IF c = "c" THEN NoCol ELSE IF c = "a" THEN [type |-> "T1", null |-> FALSE, dflt |-> "none"] ELSE [type |-> "T2", null |-> TRUE, dflt |-> "d1"]],
                                    pk |-> <<"a">>, idx |-> {[name |-> "i1", parts |-> <<Part("b", FALSE)>>, unique |-> TRUE]}, fks |-> {},
                                    chk |-> {[name |-> "k1", expr |-> "e1"]}, comment |-> "c1"]]
Seed2 == [Seed1 EXCEPT !["t2"] = [cols |-> [c \in Cn |-> IF c = "c" THEN NoCol ELSE [type |-> "T1", null |-> (c = "b"), dflt |-> "none"]],
                                    pk |-> <<"a">>, idx |-> {}, fks |-> {[name |-> "f1", col |-> "b", ref |-> "t1", refcol |-> "a", onupd |-> "NO ACTION", ondel |-> "CASCADE"]},
                                    chk |-> {}, comment |-> ""]]
Seed3 == [Empty EXCEPT !["t1"] = [cols |-> [c \in Cn |-> [type |-> "T1", null |-> FALSE, dflt |-> "none"]],
                                    pk |-> <<"a", "b">>, idx |-> {[name |-> "i1", parts |-> <<Part("a", FALSE), Part("b", TRUE)>>, unique |-> FALSE]}, fks |-> {},
                                    chk |-> {[name |-> "k1", expr |-> "e1"], [name |-> "k2", expr |-> "e2"]}, comment |-> ""]]
Seeds == {Empty, Seed1, Seed2, Seed3}
RECURSIVE Reach(_, _)
Reach(X, n) == IF n = 0 THEN X ELSE LET Y == Reach(X, n - 1) IN Y \cup UNION {Succ(S) : S \in Y}
====
