---- MODULE ApplyMonitor ----
\* Property layer for C09 / C12 over executions recorded from the real Executor.
\* It trusts only the semantics of the stores (the journal is appended by a successful ExecContext, the revision
\* table is an upsert by version of a successful WriteRevision) and the harness's own edits of the directory;
\* it has no control-flow guards.  Every formula of the properties is evaluated after every event; a failing
\* formula is recorded as <<case, name>> in `viol` (one pass lists all violating executions of a batch).
EXTENDS Naturals, Sequences, FiniteSets, TLC, Json
CONSTANT TraceFile
Trace == ndJsonDeserialize(TraceFile)

VARIABLES dirv, journal, revs,
          lastExec,   \* <<f,tok>> executed last and not yet followed by a revision write
          lost, wfault, edited,
          snapJ, snapR, fp, due, want, faultInRun, execsInRun, wfaultInRun,
          l, viol
mvars == <<dirv, journal, revs, lastExec, lost, wfault, edited, snapJ, snapR, fp, due, want, faultInRun, execsInRun, wfaultInRun, l, viol>>

NoRev == [exists |-> FALSE, applied |-> 0, total |-> 0, err |-> FALSE, partial |-> <<>>]
None  == <<0, 0>>
Ev    == Trace[l]
Is(e) == l <= Len(Trace) /\ Ev.ev = e /\ l' = l + 1
Files == DOMAIN dirv
Min(S) == CHOOSE x \in S : \A y \in S : x <= y
Lost(j, ff, t) == IF <<ff, t>> \in DOMAIN j THEN j[<<ff, t>>] ELSE 0
Mismatch(rv, ss) == rv.applied > 0 /\ (rv.applied > Len(ss) \/ SubSeq(ss, 1, rv.applied) # rv.partial)
Complete(rv, ff) == rv[ff].exists /\ rv[ff].applied = rv[ff].total
PendingOf(rv)    == {ff \in DOMAIN rv : ~Complete(rv, ff)}

\* ---- the property formulas, over an explicit (journal, revs, dirv) ------------------------------------
Toks(j, ff)   == { j[k][2] : k \in { x \in DOMAIN j : j[x][1] = ff } }
Cnt(j, ff, t) == Cardinality({k \in DOMAIN j : j[k] = <<ff, t>>})
RevNotAhead(j, rv) == \A ff \in DOMAIN rv : /\ rv[ff].applied <= Cardinality(Toks(j, ff))
                                            /\ \A k \in DOMAIN rv[ff].partial : rv[ff].partial[k] \in Toks(j, ff)
FirstIdx(j, e) == Min({k \in DOMAIN j : j[k] = e})
Pos(d, ff, t)  == CHOOSE k \in DOMAIN d[ff] : d[ff][k] = t
InOrder(j, d) == \A a, b \in DOMAIN j :
                   (a < b /\ FirstIdx(j, j[a]) = a /\ FirstIdx(j, j[b]) = b)
                     => (j[a][1] < j[b][1] \/ (j[a][1] = j[b][1] /\ Pos(d, j[a][1], j[a][2]) < Pos(d, j[b][1], j[b][2])))
NoGap(j, d) == \A k \in DOMAIN j : LET ff == j[k][1]  p == Pos(d, ff, j[k][2]) IN
                 /\ \A q \in 1..(p - 1) : Cnt(j, ff, d[ff][q]) >= 1
                 /\ \A gg \in 1..(ff - 1) : \A q \in DOMAIN d[gg] : Cnt(j, gg, d[gg][q]) >= 1
RepeatBound(j, d, ls) == \A ff \in DOMAIN d : \A q \in DOMAIN d[ff] : Cnt(j, ff, d[ff][q]) <= 1 + Lost(ls, ff, d[ff][q])
ExactlyOnce(j, d)     == \A ff \in DOMAIN d : \A q \in DOMAIN d[ff] : Cnt(j, ff, d[ff][q]) <= 1
FileComplete(j, rv, d, ff) == /\ rv[ff].exists /\ rv[ff].applied = Len(d[ff]) /\ rv[ff].total = Len(d[ff]) /\ rv[ff].partial = <<>>
                              /\ \A q \in DOMAIN d[ff] : Cnt(j, ff, d[ff][q]) >= 1

\* the statements of file ff in the order they were first executed
RECURSIVE Dedup(_, _)
Dedup(s, seen) == IF s = <<>> THEN <<>> ELSE IF Head(s) \in seen THEN Dedup(Tail(s), seen) ELSE <<Head(s)>> \o Dedup(Tail(s), seen \cup {Head(s)})
Executed(j, ff) == LET own == SelectSeq(j, LAMBDA e : e[1] = ff) IN Dedup([k \in DOMAIN own |-> own[k][2]], {})

Bad(name, cond) == IF cond THEN {} ELSE {<<Ev.c, name>>}

Init == /\ dirv = <<>> /\ journal = <<>> /\ revs = <<>> /\ lastExec = None /\ lost = <<>> /\ wfault = FALSE /\ edited = FALSE
        /\ snapJ = <<>> /\ snapR = <<>> /\ fp = 0 /\ due = FALSE /\ want = {} /\ faultInRun = FALSE /\ execsInRun = 0 /\ wfaultInRun = FALSE
        /\ l = 1 /\ viol = {}

Reset == /\ Is("reset")
         /\ dirv' = Ev.shape /\ journal' = <<>> /\ revs' = [ff \in DOMAIN Ev.shape |-> NoRev]
         /\ lastExec' = None /\ lost' = <<>> /\ wfault' = FALSE /\ edited' = FALSE
         /\ snapJ' = <<>> /\ snapR' = revs' /\ fp' = 0 /\ due' = FALSE /\ want' = {} /\ faultInRun' = FALSE /\ execsInRun' = 0 /\ wfaultInRun' = FALSE
         /\ UNCHANGED viol

\* a run starts: remember the stores and work out, from the stores alone, what the documented behaviour owes
Run == /\ Is("run")
       /\ snapJ' = journal /\ snapR' = revs /\ faultInRun' = FALSE /\ execsInRun' = 0 /\ wfaultInRun' = FALSE /\ lastExec' = None
       /\ LET P == PendingOf(revs) IN
            /\ fp' = IF P = {} THEN 0 ELSE Min(P)
            \* a refusal is owed iff the statements that were REALLY executed for the first pending file (ground truth: the
            \* journal) are no longer the file's first `applied` statements -- not iff the stored hashes say so
            /\ due' = (P # {} /\ LET ff == Min(P)  k == revs[ff].applied IN
                          k > 0 /\ (k > Len(dirv[ff]) \/ k > Len(Executed(journal, ff)) \/ SubSeq(dirv[ff], 1, k) # SubSeq(Executed(journal, ff), 1, k)))
            /\ want' = IF P = {} THEN {} ELSE IF Ev.n = 0 THEN {ff \in Files : ff >= Min(P)}
                                                ELSE {ff \in Files : ff >= Min(P) /\ ff < Min(P) + Ev.n}
       /\ UNCHANGED <<dirv, journal, revs, lost, wfault, edited, viol>>

Exec == /\ Is("exec")
        /\ IF Ev.ok THEN /\ journal' = Append(journal, <<Ev.f, Ev.tok>>) /\ lastExec' = <<Ev.f, Ev.tok>> /\ UNCHANGED faultInRun
                    ELSE /\ faultInRun' = TRUE /\ UNCHANGED <<journal, lastExec>>
        /\ execsInRun' = execsInRun + 1
        /\ viol' = viol
             \cup Bad("NoExecAfterChangedHistory", ~due)
             \cup Bad("ResumePoint", execsInRun = 0 /\ ~due =>
                        \* the first statement of a run is the first one that is not recorded in the history
                        LET cand == {ff \in want : snapR[ff].applied < Len(dirv[ff])} IN
                        /\ cand # {} /\ Ev.f = Min(cand)
                        /\ Ev.tok = dirv[Ev.f][snapR[Ev.f].applied + 1])
             \cup Bad("StatementOfThisFile", Ev.f \in Files /\ \E q \in DOMAIN dirv[Ev.f] : dirv[Ev.f][q] = Ev.tok)
             \cup (IF edited \/ ~(Ev.f \in Files /\ \E q \in DOMAIN dirv[Ev.f] : dirv[Ev.f][q] = Ev.tok) THEN {} ELSE
                     Bad("InOrder", InOrder(journal', dirv))
                     \cup Bad("NoSkip", NoGap(journal', dirv))
                     \cup Bad("RepeatBound", RepeatBound(journal', dirv, lost))
                     \cup Bad("ExactlyOnce", wfault \/ ExactlyOnce(journal', dirv)))
        /\ UNCHANGED <<dirv, revs, lost, wfault, edited, snapJ, snapR, fp, due, want, wfaultInRun>>

Write == /\ Is("write")
         /\ IF Ev.ok
              THEN /\ revs' = [revs EXCEPT ![Ev.f] = [exists |-> TRUE, applied |-> Ev.applied, total |-> Ev.total, err |-> Ev.err, partial |-> Ev.partial]]
                   /\ UNCHANGED <<lost, wfault, faultInRun, wfaultInRun>>
              ELSE /\ wfault' = TRUE /\ faultInRun' = TRUE /\ wfaultInRun' = TRUE
                   /\ lost' = IF lastExec # None THEN (lastExec :> (Lost(lost, lastExec[1], lastExec[2]) + 1)) @@ lost ELSE lost
                   /\ UNCHANGED revs
         /\ lastExec' = None
         /\ viol' = viol \cup Bad("RevNotAhead", RevNotAhead(journal, revs'))
         /\ UNCHANGED <<dirv, journal, edited, snapJ, snapR, fp, due, want, execsInRun>>

Edit == /\ Is("edit")
        /\ dirv' = [dirv EXCEPT ![Ev.f] = Ev.toks] /\ edited' = TRUE
        /\ UNCHANGED <<journal, revs, lastExec, lost, wfault, snapJ, snapR, fp, due, want, faultInRun, execsInRun, wfaultInRun, viol>>

End == /\ Is("end")
       /\ viol' = viol
            \cup Bad("NeverCrashes", Ev.cls # "panic")
            \cup Bad("Refusal", (due /\ ~wfaultInRun) => (Ev.cls = "history-changed" /\ journal = snapJ /\ revs = snapR))
            \cup Bad("NoSpuriousRefusal", Ev.cls = "history-changed" => due)
            \cup Bad("NoPendingIffNothingPending", (Ev.cls = "nopending") <=> (fp = 0))
            \cup Bad("CleanRunCompletes", Ev.cls = "ok" => \A ff \in want : FileComplete(journal, revs, dirv, ff))
            \cup Bad("FaultFreeRunSucceeds", (fp # 0 /\ ~due /\ ~faultInRun) => Ev.cls = "ok")
            \cup Bad("ErrorReported", faultInRun => Ev.cls \notin {"ok", "nopending"})
       /\ lastExec' = None
       /\ UNCHANGED <<dirv, journal, revs, lost, wfault, edited, snapJ, snapR, fp, due, want, faultInRun, execsInRun, wfaultInRun>>

Read == /\ Is("read") /\ UNCHANGED <<dirv, journal, revs, lastExec, lost, wfault, edited, snapJ, snapR, fp, due, want, faultInRun, execsInRun, wfaultInRun, viol>>

\* a failed ReadRevision is a fault of the run (an error is owed, a refusal is excused); the stores must stay as they are, which
\* the Exec / Write formulas and ErrorReported decide on whatever the executor does next
ReadFail == /\ Is("readfail") /\ faultInRun' = TRUE /\ wfaultInRun' = TRUE
            /\ UNCHANGED <<dirv, journal, revs, lastExec, lost, wfault, edited, snapJ, snapR, fp, due, want, execsInRun, viol>>

Step == Reset \/ Run \/ Exec \/ Write \/ Edit \/ End \/ Read \/ ReadFail
Next == /\ Step
        /\ (l' = Len(Trace) + 1) => PrintT(<<"VIOLS", ToJson(viol')>>)
Spec == Init /\ [][Next]_mvars
Accepted == TLCGet("stats").diameter - 1 = Len(Trace)
====
