---- MODULE Observe ----
\* Determinism of outputs (C20).  The system is seen as a family of operations op(input) -> output; an execution is an observation
\* [op, input, variant, k, plan, file, sum, sorted, same_schema, err].  The specification says: the outputs are a FUNCTION of (op, input) -
\* whatever the execution number, the process, the goroutines running next to it (variant run / proc / conc / local) - and, for a source
\* whose top-level declarations were listed in another order (variant perm), the multiset of planned statements (`sorted`) and the resulting
\* schema (`same_schema`) are those of the original listing; only the order of the statements (`plan`) may differ.
\*   plan   : digest of Plan.Changes[].Cmd in order (op plan, hcl) / the names returned by Dir.Files() in order (op dir) / file text (op cli-*)
\*   file   : digest of the formatted migration file(s) (op plan) / of the marshalled HCL document (op hcl)
\*   sum    : digest of HashFile.MarshalText
\*   sorted : digest of the sorted statements
\* The trace is grouped by (op, input) beforehand; the first observation of a group is the reference one.
EXTENDS Naturals, Sequences, FiniteSets, TLC, Json
CONSTANT TraceFile
Trace == ndJsonDeserialize(TraceFile)
VARIABLES l,      \* next line
          ref,    \* the reference observation of the current (op, input) group
          viol
vars == <<l, ref, viol>>
Ev == Trace[l]
None == [op |-> "", input |-> ""]
SameOutput(a, b) == a.plan = b.plan /\ a.file = b.file /\ a.sum = b.sum /\ a.err = b.err
Repeat == {"run", "proc", "conc", "local"}
Bad(name, cond) == IF cond THEN {} ELSE {<<Ev.id, name>>}
Init == l = 1 /\ ref = None /\ viol = {}
\* the first execution of op(input): its output defines the function's value
First == /\ l <= Len(Trace) /\ (ref.op # Ev.op \/ ref.input # Ev.input)
         /\ ref' = Ev /\ l' = l + 1
         /\ viol' = viol \cup Bad("PermutationFirst", Ev.variant \in Repeat)
\* a further execution: must reproduce it
Again == /\ l <= Len(Trace) /\ ref.op = Ev.op /\ ref.input = Ev.input /\ Ev.variant \in Repeat
         /\ UNCHANGED ref /\ l' = l + 1
         /\ viol' = viol \cup Bad("Deterministic", SameOutput(ref, Ev))
\* the same objects listed in another order
Permuted == /\ l <= Len(Trace) /\ ref.op = Ev.op /\ ref.input = Ev.input /\ Ev.variant = "perm"
            /\ UNCHANGED ref /\ l' = l + 1
            /\ viol' = viol \cup Bad("PermutationKeepsStatements", Ev.sorted = ref.sorted /\ Ev.err = ref.err)
                             \cup Bad("PermutationKeepsSchema", Ev.same_schema)
Next == /\ (First \/ Again \/ Permuted)
        /\ (l' = Len(Trace) + 1) => PrintT(<<"VIOLS", ToJson(viol')>>)
Spec == Init /\ [][Next]_vars
Accepted == TLCGet("stats").diameter - 1 = Len(Trace)
====
