---- MODULE LintModel ----
\* Destructive-change linting (C18): a migration directory is a sequence of files, a file a sequence of statements that evolve a small
\* catalogue (tables with optional columns b, c and a VIRTUAL generated column v, next to the always-present id).  The reference says,
\* per file, whether it is Destructive (drops a table or a non-virtual column that existed BEFORE the file, however the drop is written),
\* PureAdditive (only adds objects) or TempOnly (everything it drops it created itself), and which statements cause the destruction.
\* sql/sqlcheck/destructive, sql/sqlite/sqlitecheck (rebuild detection), cmd/atlas/internal/migratelint.
EXTENDS Naturals, Sequences, FiniteSets, TLC
CONSTANTS MaxFiles, MaxStmts
Tn == {"t", "u"}
Cn == {"b", "c", "v"}            \* v is the virtual generated column
NoTab == {"-"}                   \* marker: table absent
VARIABLES cat,     \* table -> set of optional columns, or NoTab
          before,  \* what is left of the catalogue the current file started with: table -> the columns that existed before the file and
                   \* have not been dropped since, or NoTab once that table is gone (a table re-created by the file is a new object)
          cur,     \* statements of the current file
          files,   \* closed files: sequence of [stmts, destructive, additive, temponly, causes]
          steps
vars == <<cat, before, cur, files, steps>>
Exists(c, t) == c[t] # NoTab
Stmt(k, t, col, sp) == [k |-> k, t |-> t, c |-> col, sp |-> sp]

Init == /\ cat = [t \in Tn |-> NoTab] /\ before = cat /\ cur = <<>> /\ files = <<>> /\ steps = 0
\* a statement is recorded with `old`: does it drop something that existed before the file (decided at the moment it runs)
\* and `pre`: the same, disregarding whether the column is virtual
Push(s, old, pre) == cur' = Append(cur, s @@ [old |-> old, pre |-> pre]) /\ steps' = steps + 1 /\ UNCHANGED files
Room == Len(cur) < MaxStmts /\ Len(files) < MaxFiles
Create(t, cols) == /\ Room /\ ~Exists(cat, t) /\ cat' = [cat EXCEPT ![t] = cols] /\ Push(Stmt("create", t, "", "") @@ [cols |-> cols], FALSE, FALSE) /\ UNCHANGED before
DropTable(t) == /\ Room /\ Exists(cat, t) /\ cat' = [cat EXCEPT ![t] = NoTab] /\ Push(Stmt("droptable", t, "", "") @@ [cols |-> {}], Exists(before, t), Exists(before, t)) /\ before' = [before EXCEPT ![t] = NoTab]
AddCol(t, c) == /\ Room /\ Exists(cat, t) /\ c \notin cat[t] /\ cat' = [cat EXCEPT ![t] = @ \cup {c}] /\ Push(Stmt("addcol", t, c, "") @@ [cols |-> {}], FALSE, FALSE) /\ UNCHANGED before
\* sp: "alter" (ALTER TABLE .. DROP COLUMN) or "rebuild" (new_t / INSERT .. SELECT / DROP / RENAME omitting the column)
DropCol(t, c, sp) == /\ Room /\ Exists(cat, t) /\ c \in cat[t]
                     /\ cat' = [cat EXCEPT ![t] = @ \ {c}] /\ Push(Stmt("dropcol", t, c, sp) @@ [cols |-> cat[t] \ {c}], c # "v" /\ Exists(before, t) /\ c \in before[t], Exists(before, t) /\ c \in before[t])
                     /\ before' = [before EXCEPT ![t] = IF Exists(before, t) THEN @ \ {c} ELSE @]
\* ---- classification of a closed file --------------------------------------------------------------
Causes == { k \in DOMAIN cur : cur[k].old }
Additive == \A k \in DOMAIN cur : cur[k].k \in {"create", "addcol"}
\* everything dropped was created by this very file and did not exist before it
TempOnly == /\ \E k \in DOMAIN cur : cur[k].k \in {"droptable", "dropcol"}
            /\ \A k \in DOMAIN cur : cur[k].k = "droptable" => ~cur[k].pre
            /\ \A k \in DOMAIN cur : cur[k].k = "dropcol" => ~cur[k].pre
CloseFile == /\ cur # <<>> /\ Len(files) < MaxFiles
             /\ files' = Append(files, [stmts |-> cur, destructive |-> Causes # {}, additive |-> Additive, temponly |-> TempOnly, causes |-> Causes])
             /\ cur' = <<>> /\ before' = cat /\ steps' = steps + 1 /\ UNCHANGED cat
Next == \/ \E t \in Tn, cols \in SUBSET Cn : Create(t, cols)
        \/ \E t \in Tn : DropTable(t)
        \/ \E t \in Tn, c \in Cn : AddCol(t, c)
        \/ \E t \in Tn, c \in Cn, sp \in {"alter", "rebuild"} : DropCol(t, c, sp)
        \/ CloseFile
Spec == Init /\ [][Next]_vars
\* ---- model obligations ------------------------------------------------------------------------------
\* the three classes are well-defined and mutually consistent
ClassesConsistent == \A k \in DOMAIN files : LET f == files[k] IN
                        /\ (f.additive => ~f.destructive /\ ~f.temponly)
                        /\ (f.temponly => ~f.destructive)
                        /\ (f.destructive <=> f.causes # {})
====
