---- MODULE DirSumMC ----
\* Bounded configurations of DirSum.tla: exhaustive check of the model's properties and export of behaviours.
EXTENDS DirSum, Json
CONSTANT Depth
NamesDef == <<"1_a.sql", "2_b.sql", "3_c.sql">>
GNext == steps < Depth /\ Next
GSpec == Init /\ [][GNext]_vars
\* every behaviour of exactly Depth steps, with the expected Validate outcome after each step
Emit == steps = Depth => PrintT(<<"VTRACE", ToJson(hist)>>)
\* the properties, over the bounded behaviours
GWritersValid == [][Writer => Valid']_vars
GTamperDetected == [][(Tamper /\ Valid /\ sum.has /\ (AbsDir(files') # AbsDir(files) \/ sum' # sum) /\ ~(Present(files) = {} /\ ~sum'.has)) => ~Valid']_vars
GNeutralKeeps == [][(Valid /\ sum.has /\ AbsDir(files') = AbsDir(files) /\ sum' = sum) => Valid']_vars
GTrailing == [][(Tamper /\ Valid /\ sum.has /\ files' # files /\ AbsDir(files') = AbsDir(files)) =>
                  \A k \in Idx : files'[k] # files[k] => (files[k].ign \/ files[k].c = "-") /\ (files'[k].ign \/ files'[k].c = "-")]_vars
View == <<files, sum, steps>>
====
