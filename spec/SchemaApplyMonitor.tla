---- MODULE SchemaApplyMonitor ----
\* Property layer for the `schema apply` part of C13: one observation per CLI invocation.
\* obs = [c, mode, dry, bad (a change that must fail on the stored data is part of the desired schema), good (number of
\*        harmless changes in the desired schema), ok (exit status 0), same (the full logical dump is byte-identical)]
EXTENDS Naturals, Sequences, FiniteSets, TLC, Json
CONSTANT TraceFile
Trace == ndJsonDeserialize(TraceFile)
VARIABLES l, viol
Ev == Trace[l]
Bad(name, cond) == IF cond THEN {} ELSE {<<Ev.c, name>>}
Init == l = 1 /\ viol = {}
Obs == /\ l <= Len(Trace) /\ l' = l + 1
       /\ viol' = viol
            \cup Bad("AllOrNothing", (Ev.mode = "file" /\ ~Ev.ok) => Ev.same)
            \cup Bad("DryRunChangesNothing", Ev.dry => Ev.same)
            \cup Bad("FailureReported", (Ev.bad /\ ~Ev.dry) => ~Ev.ok)
            \cup Bad("NoSpuriousError", ~Ev.bad => Ev.ok)
            \cup Bad("SuccessApplies", (~Ev.bad /\ ~Ev.dry /\ Ev.good > 0) => ~Ev.same)
Next == /\ Obs
        /\ (l' = Len(Trace) + 1) => PrintT(<<"VIOLS", ToJson(viol')>>)
Spec == Init /\ [][Next]_<<l, viol>>
Accepted == TLCGet("stats").diameter - 1 = Len(Trace)
====
