"""./check --setup : build everything from files on disk (offline), parse every specification with SANY."""
import glob
import os
import subprocess
import sys

sys.path.insert(0, os.path.join(os.path.dirname(os.path.abspath(__file__)), "lib"))
import vf


def main():
    try:
        vf.build_atlas()
        for mod in sorted(os.listdir(os.path.join(vf.VERIF, "harness"))):
            cmddir = os.path.join(vf.VERIF, "harness", mod, "cmd")
            if not os.path.isdir(cmddir):
                continue
            for prog in sorted(os.listdir(cmddir)):
                vf.build_harness(mod, prog)
        d = vf.scratch("sany")
        bad = 0
        try:
            for f in sorted(glob.glob(os.path.join(vf.SPEC, "*.tla"))):
                p = subprocess.run(["java", "-Djava.io.tmpdir=" + d, "-cp", vf.TLA_CP, "tla2sany.SANY", f], cwd=vf.SPEC,
                                   stdout=subprocess.PIPE, stderr=subprocess.STDOUT, text=True, timeout=300)
                ok = p.returncode == 0 and "Semantic errors" not in p.stdout and "Parse Error" not in p.stdout and "Fatal errors" not in p.stdout
                print("[sany] %-28s %s" % (os.path.basename(f), "ok" if ok else "FAILED"))
                if not ok:
                    bad += 1
                    print(p.stdout[-2000:])
        finally:
            vf.rm(d)
        return 2 if bad else 0
    except vf.Infra as e:
        print("INFRA setup:", e)
        return 2
