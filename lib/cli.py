"""Driving the real atlas CLI binary (built from /repo with -tags verif) on SQLite files, and reading the
database back with an independent client (python's sqlite3 module; never through Atlas)."""
import json
import os
import shutil
import signal
import sqlite3
import subprocess

import vf

ATLAS = os.path.join(vf.BUILD, "atlas")


class WS:
    """One private workspace: migration dir, database file(s), TMPDIR and HOME of its own (the SQLite advisory lock of
    Driver.Lock lives in TMPDIR under a name shared by all sqlite:///abs/path URLs, see DESIGN 2.7)."""

    def __init__(self, root=None):
        self.root = root or vf.scratch("ws")
        self.dir = os.path.join(self.root, "migrations")
        self.tmp = os.path.join(self.root, "tmp")
        self.home = os.path.join(self.root, "home")
        for p in (self.dir, self.tmp, self.home):
            os.makedirs(p, exist_ok=True)
        self.db = os.path.join(self.root, "app.db")
        self.dev = os.path.join(self.root, "dev.db")
        self.trace = os.path.join(self.root, "hook.ndjson")

    def url(self, path=None):
        return "sqlite://" + (path or self.db)

    def env(self, extra=None):
        e = {"PATH": os.environ.get("PATH", "/usr/bin:/bin"), "HOME": self.home, "TMPDIR": self.tmp,
             "ATLAS_NO_UPGRADE_SUGGESTIONS": "1", "ATLAS_NO_UPDATE_NOTIFIER": "1", "VERIF_TRACE": self.trace}
        if extra:
            e.update(extra)
        return e

    def atlas(self, *args, env=None, timeout=120, cwd=None):
        p = subprocess.run([ATLAS] + list(args), cwd=cwd or self.root, env=self.env(env), stdout=subprocess.PIPE,
                           stderr=subprocess.PIPE, text=True, timeout=timeout)
        return p.returncode, p.stdout, p.stderr

    def write(self, name, text):
        with open(os.path.join(self.dir, name), "w") as f:
            f.write(text)

    def hash(self):
        rc, out, err = self.atlas("migrate", "hash", "--dir", "file://" + self.dir)
        if rc != 0:
            raise vf.Infra("migrate hash failed: " + out + err)

    def events(self, clear=True):
        ev = []
        if os.path.exists(self.trace):
            with open(self.trace) as f:
                for line in f:
                    line = line.strip()
                    if line:
                        try:
                            ev.append(json.loads(line))
                        except ValueError:
                            pass  # a line cut by SIGKILL
            if clear:
                os.remove(self.trace)
        return ev

    def close(self):
        vf.rm(self.root)


def sql(path, script):
    con = sqlite3.connect(path)
    try:
        con.executescript(script)
        con.commit()
    finally:
        con.close()


def query(path, q, args=()):
    con = sqlite3.connect("file:%s?mode=ro" % path, uri=True)
    try:
        return con.execute(q, args).fetchall()
    finally:
        con.close()


def read_disk(path):
    """journal rows and revision rows as the abstract `disk` of ApplyTx.tla."""
    if not os.path.exists(path):
        return {"journal": [], "revs": {}, "tables": []}
    con = sqlite3.connect("file:%s?mode=ro" % path, uri=True)
    try:
        tables = [r[0] for r in con.execute("select name from sqlite_master where type='table' order by name")]
        journal = []
        if "j" in tables:
            journal = [[r[0], r[1]] for r in con.execute("select v, i from j order by rowid")]
        revs = {}
        if "atlas_schema_revisions" in tables:
            for row in con.execute("select version, applied, total, error, type, partial_hashes from atlas_schema_revisions order by version"):
                ph = row[5]
                try:
                    nph = len(json.loads(ph) or []) if ph else 0
                except ValueError:
                    nph = -1
                revs[row[0]] = {"applied": row[1], "total": row[2], "err": bool(row[3]), "type": row[4], "partial": nph}
        return {"journal": journal, "revs": revs, "tables": tables}
    finally:
        con.close()


def dump(path):
    """Full logical dump (schema + every row of every table), for byte-for-byte comparisons."""
    if not os.path.exists(path):
        return None
    con = sqlite3.connect("file:%s?mode=ro" % path, uri=True)
    try:
        return "\n".join(con.iterdump())
    finally:
        con.close()


def file_bytes(path):
    return open(path, "rb").read() if os.path.exists(path) else None


def dir_snapshot(d):
    out = {}
    for name in sorted(os.listdir(d)):
        p = os.path.join(d, name)
        if os.path.isfile(p):
            out[name] = open(p, "rb").read()
    return out


def died_by_sigkill(rc):
    return rc == -signal.SIGKILL
