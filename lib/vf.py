"""Common machinery for the /verif check driver.

 * run TLC (direct java start, private metadir/tmpdir, always under a timeout)
 * build Go harness programs and the tag-`verif` atlas binary against /repo's working tree
 * write evidence files, match known findings, print verdict lines

Exit-code contract (DESIGN.md 2.5):  0 held / 1 VIOLATION / 2 infrastructure.
"""
import hashlib
import json
import os
import re
import shutil
import subprocess
import sys
import tempfile
import time

VERIF = os.path.dirname(os.path.dirname(os.path.abspath(__file__)))
REPO = os.environ.get("VERIF_REPO", "/repo")
SPEC = os.path.join(VERIF, "spec")
BUILD = os.path.join(VERIF, ".build")
SCRATCH_ROOT = os.path.join(VERIF, ".scratch")
EVID = os.path.join(VERIF, "evidence")
REPLAYS = os.path.join(VERIF, "replays")
TLA_CP = "/opt/veriftools/tla/tla2tools.jar:/opt/veriftools/tla/CommunityModules-deps.jar"
NCPU = os.cpu_count() or 4


class Infra(Exception):
    """Infrastructure trouble: exit 2, never a violation."""


def log(*a):
    print(*a, flush=True)


def seed():
    try:
        return int(os.environ.get("VERIF_SEED", "1"))
    except ValueError:
        return 1


def scratch(prefix="run"):
    os.makedirs(SCRATCH_ROOT, exist_ok=True)
    return tempfile.mkdtemp(prefix=prefix + "-", dir=SCRATCH_ROOT)


def rm(path):
    shutil.rmtree(path, ignore_errors=True)


# ---------------------------------------------------------------------------- Go builds

def goenv(extra=None):
    env = dict(os.environ)
    env.update({"GOFLAGS": "-mod=mod", "GOPROXY": "off", "ATLAS_NO_UPGRADE_SUGGESTIONS": "1"})
    env.pop("GOSUMDB", None)
    env.pop("GOTOOLCHAIN", None)
    if extra:
        env.update(extra)
    return env


def _sh(cmd, cwd=None, env=None, timeout=1800, check=True, input=None):
    p = subprocess.run(cmd, cwd=cwd, env=env, timeout=timeout, input=input,
                       stdout=subprocess.PIPE, stderr=subprocess.STDOUT, text=True)
    if check and p.returncode != 0:
        raise Infra("command failed (%d): %s\n%s" % (p.returncode, " ".join(cmd), p.stdout[-4000:]))
    return p


def build_harness(module, prog, race=False):
    """Build /verif/harness/<module>/cmd/<prog> against /repo's working tree; returns the binary path."""
    mdir = os.path.join(VERIF, "harness", module)
    src_sum = os.path.join(REPO, "cmd/atlas/go.sum") if module == "cli" else os.path.join(REPO, "go.sum")
    # go.sum is derived from the repository's own (nothing can be fetched)
    with open(src_sum) as f:
        want = f.read()
    if module == "cli":
        with open(os.path.join(REPO, "go.sum")) as f:
            want += f.read()
    extra = os.path.join(mdir, "go.sum.extra")
    if os.path.exists(extra):
        want += open(extra).read()
    dst = os.path.join(mdir, "go.sum")
    if not os.path.exists(dst) or open(dst).read() != want:
        with open(dst, "w") as f:
            f.write(want)
    os.makedirs(BUILD, exist_ok=True)
    out = os.path.join(BUILD, "%s-%s%s" % (module, prog, "-race" if race else ""))
    cmd = ["go", "build", "-tags", "verif"]
    if race:
        cmd.append("-race")
    cmd += ["-o", out, "./cmd/" + prog]
    t = time.time()
    _sh(cmd, cwd=mdir, env=goenv())
    log("[build] %s/%s %.1fs" % (module, prog, time.time() - t))
    return out


def build_atlas():
    """The real CLI from the current working tree with the hook tag on."""
    os.makedirs(BUILD, exist_ok=True)
    out = os.path.join(BUILD, "atlas")
    t = time.time()
    _sh(["go", "build", "-tags", "verif", "-o", out, "."], cwd=os.path.join(REPO, "cmd/atlas"), env=goenv(), timeout=3600)
    log("[build] atlas CLI (tag verif) %.1fs" % (time.time() - t))
    return out


# ---------------------------------------------------------------------------- TLC

class TLCResult:
    def __init__(self):
        self.rc = None
        self.out = ""
        self.generated = 0
        self.distinct = 0
        self.depth = 0
        self.violated = []       # names of violated invariants / properties
        self.prints = []         # PrintT lines
        self.ok = False
        self.postcondition_failed = False
        self.wall = 0.0
        self.error_trace = ""
        self.coverage_zero = []

    def __repr__(self):
        return "TLC(rc=%s ok=%s gen=%d distinct=%d viol=%s)" % (self.rc, self.ok, self.generated, self.distinct, self.violated)


def tlc(module, cfg, files=None, workers=1, heap="2g", timeout=600, extra=None, simulate=None, depth=None,
        tlc_seed=None, keep=False, stack="256m", coverage=False, deadlock=False, defines=None, workdir=None):
    """Run TLC on spec/<module>.tla with spec/cfg/<cfg> in a private scratch copy.

    files: {name: text-or-path} extra files placed next to the spec (traces).
    Returns TLCResult (+ .dir when keep=True).
    """
    d = workdir or scratch("tlc")
    try:
        for fn in os.listdir(SPEC):
            if fn.endswith(".tla"):
                shutil.copy(os.path.join(SPEC, fn), d)
        cfgsrc = os.path.join(SPEC, "cfg", cfg)
        cfgtxt = open(cfgsrc).read()
        if defines:
            for k, v in defines.items():
                cfgtxt = cfgtxt.replace("@" + k + "@", str(v))
        with open(os.path.join(d, "run.cfg"), "w") as f:
            f.write(cfgtxt)
        for name, val in (files or {}).items():
            p = os.path.join(d, name)
            if isinstance(val, str) and os.path.exists(val) and "\n" not in val:
                shutil.copy(val, p)
            else:
                with open(p, "w") as f:
                    f.write(val)
        meta = os.path.join(d, "meta")
        tmp = os.path.join(d, "tmp")
        os.makedirs(meta, exist_ok=True)
        os.makedirs(tmp, exist_ok=True)
        cmd = ["timeout", "-k", "5", str(timeout), "java", "-Xms256m", "-Xmx" + heap, "-Xss" + stack, "-XX:+UseParallelGC",
               "-Djava.io.tmpdir=" + tmp, "-cp", TLA_CP, "tlc2.TLC", "-metadir", meta, "-config", "run.cfg",
               "-workers", str(workers)]
        if not deadlock:
            cmd.append("-deadlock")   # -deadlock switches deadlock checking OFF
        if simulate is not None:
            cmd += ["-simulate", simulate]
            if depth:
                cmd += ["-depth", str(depth)]
        if tlc_seed is not None:
            cmd += ["-seed", str(tlc_seed)]
        if coverage:
            cmd += ["-coverage", "1"]
        if extra:
            cmd += extra
        cmd.append(module + ".tla")
        t = time.time()
        env = dict(os.environ)
        env.pop("JAVA_TOOL_OPTIONS", None)
        p = subprocess.run(cmd, cwd=d, env=env, stdout=subprocess.PIPE, stderr=subprocess.STDOUT, text=True, errors="replace")
        r = TLCResult()
        r.wall = time.time() - t
        r.rc = p.returncode
        r.out = p.stdout
        if keep:
            r.dir = d
        _parse_tlc(r)
        if r.rc in (124, 137):
            raise Infra("TLC timed out after %ss on %s/%s" % (timeout, module, cfg))
        if "OutOfMemoryError" in r.out or "StackOverflowError" in r.out:
            raise Infra("TLC resource exhaustion on %s/%s\n%s" % (module, cfg, r.out[-2000:]))
        if ("Parsing or semantic analysis failed" in r.out or "Error: " in r.out and not r.violated
                and not r.postcondition_failed and not r.ok):
            raise Infra("TLC error on %s/%s:\n%s" % (module, cfg, r.out[r.out.find("Error:"):][:3000] if "Error:" in r.out else r.out[-3000:]))
        return r
    finally:
        if not keep and not workdir:
            rm(d)


_re_states = re.compile(r"(\d+) states generated, (\d+) distinct states found")
_re_depth = re.compile(r"The depth of the complete state graph search is (\d+)")
_re_inv = re.compile(r"Invariant (\S+) is violated")
_re_prop = re.compile(r"(?:Action property|Temporal properties|property) (\S+)? ?(?:is|were) violated")


def _parse_tlc(r):
    for m in _re_states.finditer(r.out):
        r.generated, r.distinct = int(m.group(1)), int(m.group(2))
    m = _re_depth.search(r.out)
    if m:
        r.depth = int(m.group(1))
    r.violated = _re_inv.findall(r.out)
    for line in r.out.split("\n"):
        if "Action property" in line and "violated" in line:
            r.violated.append(line.strip())
        if "Temporal properties were violated" in line or ("Temporal property" in line and "was violated" in line):
            r.violated.append("temporal")
        if line.startswith("<<") or line.startswith('"'):
            r.prints.append(line)
        if "is violated by the initial state" in line:
            r.violated.append(line.strip())
        if "Deadlock reached" in line:
            r.violated.append("deadlock")
    if re.search(r"Postcondition \S+ .*is false", r.out):
        r.postcondition_failed = True
    if "Assumption" in r.out and "is false" in r.out:
        r.violated.append("assumption")
    r.ok = ("Model checking completed. No error has been found." in r.out or
            (r.rc == 0 and not r.violated and not r.postcondition_failed and "Error:" not in r.out))
    if r.violated:
        i = r.out.find("Error:")
        r.error_trace = r.out[i:i + 6000] if i >= 0 else ""
    for line in r.out.split("\n"):
        if re.search(r": 0$", line) and line.lstrip().startswith("<"):
            r.coverage_zero.append(line.strip())


def tla_prints(r, tag):
    """PrintT(<<"TAG", ...>>) lines -> list of parsed python values (numbers / strings only)."""
    out = []
    for line in r.prints:
        if line.startswith('<<"%s"' % tag):
            out.append(parse_tla_value(line))
    return out


def parse_tla_value(s):
    """Parser for the TLC value syntax: tuples, numbers, strings, TRUE/FALSE, sets, records, functions."""
    pos = [0]

    def ws():
        while pos[0] < len(s) and s[pos[0]] in " \n\t\r":
            pos[0] += 1

    def val():
        ws()
        c = s[pos[0]]
        if s.startswith("<<", pos[0]):
            pos[0] += 2
            items = []
            ws()
            while not s.startswith(">>", pos[0]):
                items.append(val())
                ws()
                if s[pos[0]] == ",":
                    pos[0] += 1
                ws()
            pos[0] += 2
            return items
        if c == "{":
            pos[0] += 1
            items = []
            ws()
            while s[pos[0]] != "}":
                items.append(val())
                ws()
                if s[pos[0]] == ",":
                    pos[0] += 1
                ws()
            pos[0] += 1
            return {"__set__": items}
        if c == "[":
            pos[0] += 1
            rec = {}
            ws()
            while s[pos[0]] != "]":
                m = re.match(r"[A-Za-z_][A-Za-z0-9_]*", s[pos[0]:])
                k = m.group(0)
                pos[0] += len(k)
                ws()
                assert s.startswith("|->", pos[0]), s[pos[0]:pos[0] + 20]
                pos[0] += 3
                rec[k] = val()
                ws()
                if s[pos[0]] == ",":
                    pos[0] += 1
                ws()
            pos[0] += 1
            return rec
        if c == "(":
            # function  (a :> b @@ c :> d)
            pos[0] += 1
            fn = []
            ws()
            while s[pos[0]] != ")":
                k = val()
                ws()
                assert s.startswith(":>", pos[0])
                pos[0] += 2
                v = val()
                fn.append([k, v])
                ws()
                if s.startswith("@@", pos[0]):
                    pos[0] += 2
                ws()
            pos[0] += 1
            return {"__fn__": fn}
        if c == '"':
            j = pos[0] + 1
            buf = []
            while s[j] != '"':
                if s[j] == "\\":
                    j += 1
                    buf.append({"n": "\n", "t": "\t"}.get(s[j], s[j]))
                else:
                    buf.append(s[j])
                j += 1
            pos[0] = j + 1
            return "".join(buf)
        m = re.match(r"-?\d+", s[pos[0]:])
        if m:
            pos[0] += len(m.group(0))
            return int(m.group(0))
        m = re.match(r"[A-Za-z_][A-Za-z0-9_]*", s[pos[0]:])
        if m:
            pos[0] += len(m.group(0))
            w = m.group(0)
            return True if w == "TRUE" else False if w == "FALSE" else w
        raise ValueError("cannot parse TLA value at %d: %r" % (pos[0], s[pos[0]:pos[0] + 40]))

    return val()


def vtraces(r, tag="VTRACE"):
    """Lines <<"VTRACE", "json">> printed by Emit invariants -> list of python objects (deduplicated, ordered)."""
    seen, out = set(), []
    for line in r.prints:
        if line.startswith('<<"%s"' % tag):
            v = parse_tla_value(line)
            js = v[1]
            if js in seen:
                continue
            seen.add(js)
            out.append(json.loads(js))
    return out


# ---------------------------------------------------------------------------- known findings

def load_findings(pid):
    p = os.path.join(VERIF, "known_findings.json")
    if not os.path.exists(p):
        return []
    data = json.load(open(p))
    return [f for f in data.get("findings", []) if f["property"] == pid and f.get("status") == "open"]


def match_finding(findings, case):
    """A finding's signature is a dict of field -> value (or list of admissible values, or {"re": ...})
    over the *case* description (never over the observed output)."""
    for f in findings:
        ok = True
        for k, want in f["signature"].items():
            got = case.get(k, None)
            if isinstance(want, dict) and "re" in want:
                if got is None or not re.search(want["re"], str(got)):
                    ok = False
            elif isinstance(want, list):
                if got not in want:
                    ok = False
            elif got != want:
                ok = False
            if not ok:
                break
        if ok:
            return f
    return None


# ---------------------------------------------------------------------------- verdicts / evidence

class Verdict:
    """Collects violations / known findings / drift for one property run."""

    def __init__(self, pid, tier, level):
        self.pid, self.tier, self.level = pid, tier, level
        self.t0 = time.time()
        self.violations = []      # (case, detail)
        self.known = {}           # finding id -> count
        self.drift = []
        self.findings = load_findings(pid)
        self.cov = {}
        self.assumptions = []
        self.samples = []
        self.notes = []
        rm(os.path.join(REPLAYS, pid))

    def violation(self, case, detail):
        """case: dict describing the failing input (signature fields + full replay data)."""
        f = match_finding(self.findings, case)
        if f is not None:
            self.known[f["id"]] = self.known.get(f["id"], 0) + 1
            return False
        self.violations.append((case, detail))
        return True

    def drift_note(self, text):
        if len(self.drift) < 50:
            self.drift.append(text)

    def finish(self):
        os.makedirs(EVID, exist_ok=True)
        for f in self.findings:
            if f["id"] in self.known:
                log("KNOWN-FINDING: property=%s %s (%d cases this run; %s)" % (self.pid, f["what"], self.known[f["id"]], f["id"]))
        nviol = len(self.violations)
        paths = []
        if nviol:
            os.makedirs(os.path.join(REPLAYS, self.pid), exist_ok=True)
            # group by detail class so that the output stays readable
            shown = 0
            # one replay file per distinct small-field signature (at most 12), so that different classes are all visible
            seen_sig, picked = set(), []
            for case, detail in self.violations:
                sig = json.dumps({k: v for k, v in case.items() if isinstance(v, (bool, int, str)) and len(str(v)) < 60}, sort_keys=True)
                if sig not in seen_sig:
                    seen_sig.add(sig)
                    picked.append((case, detail))
                if len(picked) >= 12:
                    break
            for case, detail in picked:
                if shown >= 12:
                    break
                h = hashlib.sha1(json.dumps(case, sort_keys=True, default=str).encode()).hexdigest()[:12]
                path = os.path.join(REPLAYS, self.pid, h + ".json")
                with open(path, "w") as fp:
                    json.dump({"property": self.pid, "tier": self.tier, "seed": seed(), "case": case, "detail": detail,
                               "cmd": "./check %s --replay %s" % (self.pid, path)}, fp, indent=1, default=str)
                paths.append(path)
                log("VIOLATION property=%s replay=%s" % (self.pid, path))
                log("  detail: %s" % (json.dumps(detail, default=str)[:600]))
                shown += 1
            if nviol > shown:
                log("  (+%d more violating cases)" % (nviol - shown))
            with open(os.path.join(REPLAYS, self.pid, "_all_cases.json"), "w") as fp:
                json.dump([c for c, _ in self.violations[:5000]], fp, default=str)
        for dnote in self.drift[:10]:
            log("DRIFT property=%s %s" % (self.pid, dnote))
        cov = dict(self.cov)
        if not self.samples:
            self.samples = ["(no sample recorded)"]
        cov["samples"] = self.samples[:5]
        cov["known_findings"] = self.known
        cov["drift"] = len(self.drift)
        ev = {"property_id": self.pid, "tier": self.tier, "seed": seed(), "level": self.level, "coverage": cov,
              "assumptions": self.assumptions, "wall_s": round(time.time() - self.t0, 2), "violations": nviol,
              "notes": self.notes}
        with open(os.path.join(EVID, self.pid + ".json"), "w") as fp:
            json.dump(ev, fp, indent=1, default=str)
        log("[%s] tier=%s seed=%d wall=%.1fs violations=%d known=%d drift=%d" % (
            self.pid, self.tier, seed(), time.time() - self.t0, nviol, sum(self.known.values()), len(self.drift)))
        return 1 if nviol else 0


def run_check(fn, pid, tier):
    try:
        rc = fn(tier)
    except Infra as e:
        log("INFRA property=%s %s" % (pid, e))
        sys.exit(2)
    except subprocess.TimeoutExpired as e:
        log("INFRA property=%s timeout: %s" % (pid, e))
        sys.exit(2)
    sys.exit(rc)


def ndjson(records):
    return "".join(json.dumps(r, separators=(",", ":")) + "\n" for r in records)


def run_json(cmd, inp=None, timeout=3600, env=None, cwd=None):
    """Run a harness program; stdout must be JSON (one document)."""
    p = subprocess.run(cmd, input=inp, stdout=subprocess.PIPE, stderr=subprocess.PIPE, text=True, timeout=timeout, env=env, cwd=cwd)
    if p.returncode != 0:
        raise Infra("harness failed (%d): %s\n%s" % (p.returncode, " ".join(cmd)[:300], p.stderr[-3000:]))
    try:
        return json.loads(p.stdout)
    except ValueError:
        raise Infra("harness printed no JSON: %s\n%s\n%s" % (" ".join(cmd)[:300], p.stdout[-1000:], p.stderr[-2000:]))


# ---------------------------------------------------------------------------- batched trace validation

def split_trace(path, outdir, max_events=20000, independent=False):
    """Split an ndjson trace at "reset" events into chunks of at most max_events lines. Returns [(file, first_line, nlines)]."""
    chunks, cur, n, first, idx = [], None, 0, 1, 0
    lineno = 0
    with open(path) as f:
        for line in f:
            lineno += 1
            # a new execution starts at a reset event (key order differs between the Python and the Go writers)
            if cur is None or (n >= max_events and (independent or '"ev":"reset"' in line[:200])):
                if cur:
                    cur.close()
                    chunks[-1] = (chunks[-1][0], chunks[-1][1], n)
                idx += 1
                p = os.path.join(outdir, "chunk%03d.ndjson" % idx)
                cur = open(p, "w")
                chunks.append((p, lineno, 0))
                n = 0
            cur.write(line)
            n += 1
    if cur:
        cur.close()
        chunks[-1] = (chunks[-1][0], chunks[-1][1], n)
    return chunks


def tlc_many(jobs, parallel=None):
    """jobs: list of kwargs for tlc(); run in a thread pool; returns results in order."""
    from concurrent.futures import ThreadPoolExecutor
    parallel = parallel or max(1, min(len(jobs), NCPU))
    with ThreadPoolExecutor(max_workers=parallel) as ex:
        futs = [ex.submit(lambda kw=kw: tlc(**kw)) for kw in jobs]
        return [f.result() for f in futs]


def monitor_trace(module, cfg, trace_path, max_events=20000, heap="2g", timeout=900, independent=False):
    # independent: every line is an observation of its own (the monitor keeps no state between lines): chunks may end anywhere
    """Run a monitor specification (accumulating `viol`) over a trace, chunked. Returns (viols [[case,name]..], events, states)."""
    d = scratch("mon")
    try:
        chunks = split_trace(trace_path, d, max_events, independent)
        jobs = [dict(module=module, cfg=cfg, files={"trace.ndjson": c[0]}, heap=heap, timeout=timeout) for c in chunks]
        viols, states, events = [], 0, 0
        for c, r in zip(chunks, tlc_many(jobs)):
            if not r.ok:
                raise Infra("monitor %s did not consume its trace chunk (%s): %s" % (module, c[0], r.out[-3000:]))
            pv = tla_prints(r, "VIOLS")
            if not pv:
                raise Infra("monitor %s printed no VIOLS line" % module)
            viols += json.loads(pv[0][1])
            states += r.distinct
            events += c[2]
        return viols, events, states
    finally:
        rm(d)


def conform_trace(module, cfg, trace_path, case_of_line, max_events=20000, heap="2g", timeout=900, max_drift=12):
    """Run a conformance trace specification; a rejected execution is dropped and the rest re-validated.
    case_of_line(lineno) -> (case_id, first_line, last_line). Returns (drift [(case, line, longest prefix)], visited_max, accepted_events)."""
    d = scratch("conf")
    drift = []
    try:
        chunks = split_trace(trace_path, d, max_events)
        pending = [(c[0], c[1]) for c in chunks]
        visited, accepted = 0, 0
        rounds = 0
        while pending and rounds < max_drift:
            rounds += 1
            jobs = [dict(module=module, cfg=cfg, files={"trace.ndjson": p}, heap=heap, timeout=timeout) for p, _ in pending]
            nxt = []
            for (p, first), r in zip(pending, tlc_many(jobs)):
                info = None
                for line in r.prints:
                    if line.startswith('<<"VISITED"'):
                        info = parse_tla_value(line)
                if r.violated and not info:
                    # an invariant of the specification failed on an implementation trace: the state holds the cursor
                    m = re.findall(r"/\\ l = (\d+)", r.out)
                    reached = int(m[-1]) if m else 1
                    info = ["VISITED", 0, "REACHED", reached, "LEN", 0]
                    inv = r.violated[0]
                elif info is None:
                    raise Infra("conformance run gave no result: " + r.out[-3000:])
                else:
                    inv = None
                visited = max(visited, info[1])
                reached, length = info[3], info[5]
                if inv is None and reached == length + 1:
                    accepted += length
                    continue
                # rejected at local line `reached` -> global line
                gl = first + reached - 1
                cid, cfirst, clast = case_of_line(gl)
                drift.append({"case": cid, "line": gl, "offset_in_case": gl - cfirst, "invariant": inv})
                # drop that execution from the chunk and re-validate the remainder
                lines = open(p).read().split("\n")
                lo, hi = cfirst - first, clast - first
                accepted += lo
                rest = lines[hi + 1:]
                if any(x.strip() for x in rest):
                    with open(p, "w") as f:
                        f.write("\n".join(rest))
                    nxt.append((p, clast + 1))
            pending = nxt
        return drift, visited, accepted, bool(pending)
    finally:
        rm(d)
